/-
C16 line-protocol driver:  `lake env lean --run Sc3Verif/C16/Driver.lean < ops`

  reset                       new case (prints `reset`)
  new SIZE POS OFF            ContiguousBlockAllocator(SIZE, POS, OFF)
  alloc N K                   alloc(N), choice oracle index K
  freelive J                  free the (J mod #live)-th live address (allocation order); `skip` if none
  freedead J                  free the (J mod #dead)-th already freed address (double free)
  freeaddr X                  free(X)
  freenone                    free(None)
  freeall                     free(start) of every used block in address order (Buffer.free_all)
  blocks                      blocks()
  probeall                    for each distinct maximal free-run length m of the ledger: alloc(m) on a copy
  use I                       switch to allocator slot I (0..2)
  partnew CB AB BF IC OC ML RC RA RB CID INI    the three allocators + node allocator a Server builds
                              (GenPartition, regenerated from server.py) into slots 0,1,2
  nia USER INIT               NodeIDAllocator(USER, INIT)
  nid COUNT                   COUNT × alloc(), prints the ids

Every allocator op prints the result and a dump of the whole state (top, blocks, freed dict in
insertion order with each set sorted), so the tie covers the internal state, not only outputs.
-/
import Sc3Verif.C16.Model
import Sc3Verif.C16.GenPartition
open Sc3Verif.C16

def fmtBlock (b : Block) : String := s!"{b.start}:{b.size}:{if b.used then "u" else "f"}"

def dump (a : CBA) : String :=
  let bs := a.array.filterMap id
  let fs := a.freed.map fun p => s!"{p.1}:\{{",".intercalate ((sortNat p.2).map toString)}}"
  s!"top={a.top} B=[{",".intercalate (bs.map fmtBlock)}] F=[{";".intercalate fs}]"

def fmtErr : Err → String
  | .index => "IndexError"
  | .negIndex => "NegativeIndex"
  | .attrNone => "AttributeError"

structure Slot where
  cba : CBA
  live : List (Nat × Nat) := []   -- (address, n) returned by alloc and not yet freed, allocation order
  dead : List Nat := []           -- addresses freed at least once, in order of first free

structure St where
  slots : List (Option Slot) := [none, none, none]
  cur : Nat := 0
  nia : Option NIA := none

def St.slot (st : St) : Option Slot := (st.slots[st.cur]?).join
def St.setSlot (st : St) (s : Option Slot) : St := { st with slots := st.slots.set st.cur s }

def nums (ws : List String) : Option (List Nat) := ws.mapM String.toNat?

def insertPair (x : Nat × Nat) : List (Nat × Nat) → List (Nat × Nat)
  | [] => [x]
  | y :: ys => if x.1 ≤ y.1 then x :: y :: ys else y :: insertPair x ys

/-- lengths of the maximal free runs of `[lo, hi)` according to the ledger of live ranges -/
def freeRuns (lo hi : Nat) (live : List (Nat × Nat)) : List Nat :=
  let sorted := live.foldr insertPair []
  let rec go (cur : Nat) : List (Nat × Nat) → List Nat
    | [] => if hi > cur then [hi - cur] else []
    | (a, n) :: rest => (if a > cur then [a - cur] else []) ++ go (max cur (a + n)) rest
  (sortNat (go lo sorted)).eraseDups

def fmtRes : M (CBA × Option Nat) → String
  | .error e => fmtErr e
  | .ok (_, some x) => toString x
  | .ok (_, none) => "None"

def doFree (st : St) (s : Slot) (x : Option Nat) (label : String) : St × String :=
  match s.cba.free x with
  | .error e => (st, s!"{label} -> {fmtErr e}")
  | .ok a' =>
    let s := match x with
      | some v =>
        if s.live.any (·.1 == v) then
          { s with live := s.live.filter (·.1 != v),
                   dead := if v ∈ s.dead then s.dead else s.dead ++ [v] }
        else s
      | none => s
    (st.setSlot (some { s with cba := a' }), s!"{label} -> ok {dump a'}")

def mkSlot (args : Int × Int × Int) : Option Slot :=
  let (size, pos, off) := args
  if size < 0 || pos < 0 || off < 0 then none
  else (CBA.init size.toNat pos.toNat off.toNat).map fun a => { cba := a }

def fmtArgs (a : Int × Int × Int) : String := s!"{a.1} {a.2.1} {a.2.2}"

def stepLine (st : St) (line : String) : St × String :=
  match (line.trimAscii.toString.splitOn " ").filter (· ≠ "") with
  | "new" :: ws =>
    match nums ws with
    | some [size, pos, off] =>
      match CBA.init size pos off with
      | some a => (st.setSlot (some { cba := a }), s!"new ok {dump a}")
      | none => (st.setSlot none, "new IndexError")
    | _ => (st, "bad-op")
  | ["use", i] =>
    match i.toNat? with
    | some i => ({ st with cur := i }, s!"use {i}")
    | none => (st, "bad-op")
  | "nia" :: u :: i :: [] =>
    match u.toNat?, i.toInt? with
    | some u, some i =>
      match NIA.init u i with
      | some n => ({ st with nia := some n }, "nia ok")
      | none => ({ st with nia := none }, "nia Exception")
    | _, _ => (st, "bad-op")
  | ["nid", c] =>
    match c.toNat?, st.nia with
    | some c, some n =>
      let (n', ids) := n.allocs c
      ({ st with nia := some n' },
       "ids " ++ ",".intercalate (ids.map fun | some x => toString x | none => "neg"))
    | _, _ => (st, "bad-op")
  | "partnew" :: ws =>
    match (ws.mapM String.toInt?) with
    | some [cb, ab, bf, ic, oc, ml, rc, ra, rb, cid, ini] =>
      let o : Opts := { control_buses := cb, audio_buses := ab, buffers := bf, input_channels := ic,
                        output_channels := oc, max_logins := ml, reserved_control_buses := rc,
                        reserved_audio_buses := ra, reserved_buffers := rb, client_id := cid,
                        initial_node_id := ini }
      let (c, a) := busAllocArgs o
      let b := bufferAllocArgs o
      let (u, i) := nodeAllocArgs o
      let nia := if u < 0 then none else NIA.init u.toNat i
      ({ st with slots := [mkSlot c, mkSlot a, mkSlot b], nia := nia },
       s!"part {fmtArgs c} | {fmtArgs a} | {fmtArgs b} | node {u} {i}")
    | _ => (st, "bad-op")
  | w :: ws =>
    match st.slot with
    | none => (st, "no-allocator")
    | some s =>
      let a := s.cba
      match w, nums ws with
      | "alloc", some [n, k] =>
        match a.alloc n k with
        | .error e => (st, s!"alloc {n} -> {fmtErr e}")
        | .ok (a', r) =>
          let s := { s with cba := a' }
          match r with
          | some x => (st.setSlot (some { s with live := s.live ++ [(x, n)],
                                                 dead := s.dead.filter (· != x) }),
                       s!"alloc {n} -> {x} {dump a'}")
          | none => (st.setSlot (some s), s!"alloc {n} -> None {dump a'}")
      | "freelive", some [j] =>
        if s.live.isEmpty then (st, "skip")
        else
          let x := (s.live[j % s.live.length]!).1
          doFree st s (some x) s!"free {x}"
      | "freedead", some [j] =>
        if s.dead.isEmpty then (st, "skip")
        else
          let x := s.dead[j % s.dead.length]!
          doFree st s (some x) s!"free {x}"
      | "freeaddr", some [x] => doFree st s (some x) s!"free {x}"
      | "freenone", some [] => doFree st s none "free None"
      | "freeall", some [] =>
        -- `Server._free_all_buffers`: free(block.address) for every used block, in address order
        let a' := a.blocks.foldl (fun acc b => match acc.free (some b.start) with | .ok x => x | .error _ => acc) a
        (st.setSlot (some { s with cba := a', live := [], dead := s.dead ++ (s.live.map (·.1)).filter (fun x => !s.dead.contains x) }),
         s!"freeall ok {dump a'}")
      | "blocks", some [] => (st, "blocks [" ++ ",".intercalate (a.blocks.map fmtBlock) ++ "]")
      | "probeall", some [] =>
        let runs := freeRuns a.pos (a.off + a.size) s.live
        (st, "probe " ++ " ".intercalate (runs.map fun m => s!"{m}->{fmtRes (a.alloc m 0)}"))
      | _, _ => (st, "bad-op")
  | [] => (st, "bad-op")

partial def loop (h : IO.FS.Stream) (out : IO.FS.Stream) (st : St) : IO Unit := do
  let line ← h.getLine
  if line.isEmpty then return ()
  if line.trimAscii.toString == "reset" then
    out.putStrLn "reset"
    loop h out {}
  else
    let (st', o) := stepLine st line
    out.putStrLn o
    loop h out st'

def main : IO Unit := do
  loop (← IO.getStdin) (← IO.getStdout) {}
