/-
C16 — executable model of `sc3/synth/_engine.py`:
`ContiguousBlock`, `ContiguousBlockAllocator` (alloc / free and every private helper they
reach) and `NodeIDAllocator.alloc`.

What is modelled exactly
* `_array` as a `List (Option Block)` indexed by RELATIVE address; every read/write goes
  through `cell`/`setCell`, which perform the `x - self.addr_offset` index arithmetic of the
  code and fail (`Err.index`, `Err.negIndex`) where Python raises `IndexError` / would use a
  negative index.  Nothing is silently clamped.
* `_freed` as the dict `size ↦ set of blocks` in dict INSERTION order (`List (Nat × List Nat)`,
  a block in a set is identified by its start address; a key whose set becomes empty is
  deleted and re-enters at the end, as a Python dict does).
* `top`, `pos` (shifted), `addr_offset`, `size`.
* `_find_available` (exact size, then first size `≥ n` in insertion order, then the top
  block), `_reserve`/`_split` as used by `alloc`, `free` with `None`, double free,
  `_find_previous`, `_find_next` (both branches), `join`/`adjoins`/`split` of blocks,
  `_add_to_freed`, `_remove_from_freed`, `blocks()`.
* `bi.choice(list(set))` is an ORACLE: `alloc n k` takes the index `k` of the chosen element
  in the candidate set ordered by start address (`k mod len`).  Theorems quantify over every `k`
  and `pick_surjective` shows every candidate is reachable.
* `NodeIDAllocator.alloc` with `bi.wrap`/`bi.mod` on Python ints.

The model describes the code AFTER the two `fix:` commits of C16: D7 (`_find_next` compares the
relative address `i - addr_offset` with `size`) and D-C16-1 (`free` ignores addresses below
`addr_offset` instead of indexing the array with a negative number).

Not modelled: `reserve()` (public, not used by Bus/Buffer), `PowerOfTwoAllocator`,
`LRUNumberAllocator`, `StackNumberAllocator`, `RingNumberAllocator`, `alloc_perm/free_perm`
(reference undefined attributes `_perm_free`, `mask`; never called).
Core Lean only — this file is loaded by the line-protocol driver.
-/
namespace Sc3Verif.C16

/-- `ContiguousBlock(start, size)` with its `used` flag. -/
structure Block where
  start : Nat
  size : Nat
  used : Bool
deriving Repr, DecidableEq

/-- Python exceptions the modelled code can raise. -/
inductive Err where
  | index      -- IndexError: list index out of range
  | negIndex   -- a negative list index (Python wraps around): outside the model's domain
  | attrNone   -- AttributeError: attribute of None
deriving Repr, DecidableEq

abbrev M := Except Err

/-- `_freed`: size ↦ set of free blocks (by start), in dict insertion order. -/
abbrev Freed := List (Nat × List Nat)

structure CBA where
  size : Nat
  pos : Nat                      -- `self.pos` (already shifted by `addr_offset`)
  top : Nat
  off : Nat                      -- `addr_offset`
  array : List (Option Block)
  freed : Freed
deriving Repr, DecidableEq

/-! ### ContiguousBlock -/

def Block.adjoins (a b : Block) : Bool :=
  (a.start < b.start && a.start + a.size ≥ b.start) ||
  (a.start > b.start && b.start + b.size ≥ a.start)

def Block.join (a b : Block) : Option Block :=
  if a.adjoins b then
    let st := min a.start b.start
    some ⟨st, max (a.start + a.size) (b.start + b.size) - st, false⟩
  else none

/-- `block.split(span)`: `[new, leftover]`. -/
def Block.split (b : Block) (span : Nat) : Option Block × Option Block :=
  if span < b.size then
    (some ⟨b.start, span, false⟩, some ⟨b.start + span, b.size - span, false⟩)
  else if span = b.size then (some b, none)
  else (none, none)

/-! ### list cells -/

/-- `arr[x - off]` (read) on the raw list. -/
def cellL (arr : List (Option Block)) (off x : Nat) : M (Option Block) :=
  if x < off then .error .negIndex
  else match arr[x - off]? with
    | some c => .ok c
    | none => .error .index

/-- `arr[x - off] = v` on the raw list. -/
def setCellL (arr : List (Option Block)) (off x : Nat) (v : Option Block) : M (List (Option Block)) :=
  if x < off then .error .negIndex
  else if x - off < arr.length then .ok (arr.set (x - off) v)
  else .error .index

/-- `self._array[x - self.addr_offset]` (read). -/
def CBA.cell (a : CBA) (x : Nat) : M (Option Block) := cellL a.array a.off x

/-- `self._array[x - self.addr_offset] = v`. -/
def CBA.setCell (a : CBA) (x : Nat) (v : Option Block) : M CBA :=
  match setCellL a.array a.off x v with
  | .ok arr => .ok { a with array := arr }
  | .error e => .error e

/-! ### the `_freed` dict -/

/-- `_add_to_freed(block)`. -/
def addFreed (f : Freed) (b : Block) : Freed :=
  if f.any (fun p => p.1 == b.size) then
    f.map fun p => if p.1 == b.size then (p.1, if b.start ∈ p.2 then p.2 else p.2 ++ [b.start]) else p
  else f ++ [(b.size, [b.start])]

/-- `_remove_from_freed(block)`. -/
def removeFreed (f : Freed) (b : Block) : Freed :=
  f.filterMap fun p =>
    if p.1 == b.size then
      let l := p.2.filter (· != b.start)
      if l.isEmpty then none else some (p.1, l)
    else some p

/-! ### the choice oracle -/

def insertNat (x : Nat) : List Nat → List Nat
  | [] => [x]
  | y :: ys => if x ≤ y then x :: y :: ys else y :: insertNat x ys

def sortNat : List Nat → List Nat
  | [] => []
  | x :: xs => insertNat x (sortNat xs)

/-- `bi.choice(list(set))`: the `k mod len`-th smallest element (oracle index `k`). -/
def pick (l : List Nat) (k : Nat) : Option Nat := (sortNat l)[k % l.length]?

def pickBlock (p : Nat × List Nat) (k : Nat) : M (Option Block) :=
  match pick p.2 k with
  | some st => .ok (some ⟨st, p.1, false⟩)
  | none => .error .index          -- `random.choice([])`

/-! ### searching -/

/-- `_find_previous`: `for i in reversed(range(self.pos, addr))`; the argument is `i + 1`. -/
def findPrevFrom (arr : List (Option Block)) (off pos : Nat) : Nat → M (Option Block)
  | 0 => .ok none
  | i + 1 =>
    if i < pos then .ok none
    else if i < off then .error .negIndex
    else match arr[i - off]? with
      | none => .error .index
      | some (some b) => .ok (some b)
      | some none => findPrevFrom arr off pos i

def CBA.findPrevious (a : CBA) (addr : Nat) : M (Option Block) :=
  findPrevFrom a.array a.off a.pos addr

/-- the `while i <= self.top and self._array[i - off] is None: i += 1` loop. -/
def CBA.scanNext (a : CBA) : Nat → Nat → M Nat
  | 0, i => .ok i
  | fuel + 1, i =>
    if i ≤ a.top then
      match a.cell i with
      | .error e => .error e
      | .ok none => a.scanNext fuel (i + 1)
      | .ok (some _) => .ok i
    else .ok i

/-- `_find_next` (with the D7 repair: the RELATIVE address is compared with `size`). -/
def CBA.findNext (a : CBA) (addr : Nat) : M (Option Block) := do
  let tmp ← a.cell addr
  let i ← match tmp with
    | some t => pure (t.start + t.size)
    | none => a.scanNext (a.top + 1 - addr) (addr + 1)
  if i - a.off < a.size then a.cell i else pure none

/-- `_find_available(n)`; `k` is the choice oracle. -/
def CBA.findAvailable (a : CBA) (n k : Nat) : M (Option Block) :=
  match a.freed.find? (fun p => p.1 == n && !p.2.isEmpty) with
  | some p => pickBlock p k
  | none =>
    match a.freed.find? (fun p => decide (n ≤ p.1) && !p.2.isEmpty) with
    | some p => pickBlock p k
    | none =>
      if a.top + n - a.off > a.size then pure none
      else do
        match ← a.cell a.top with
        | none => throw .attrNone
        | some b => if b.used then pure none else pure (some b)

/-! ### `_split`, `_reserve`, `alloc` -/

/-- `_split(avail_block, n, used)` → state, `new`, `leftover`. -/
def CBA.split (a : CBA) (avail : Block) (n : Nat) (used : Bool) : M (CBA × Block × Option Block) :=
  match avail.split n with
  | (none, _) => throw .attrNone
  | (some new0, leftover) => do
    let new : Block := { new0 with used := used }
    let f := removeFreed a.freed avail
    let f := if used then f else addFreed f new
    let a ← { a with freed := f }.setCell new.start (some new)
    match leftover with
    | none => pure (a, new, none)
    | some lo =>
      let a ← a.setCell lo.start (some lo)
      let top := max a.top lo.start
      let f := if top > lo.start then addFreed a.freed lo else a.freed
      pure ({ a with top := top, freed := f }, new, some lo)

/-- `_reserve(addr, size, avail_block)` as `alloc` calls it (`avail_block` given). -/
def CBA.reserveAt (a : CBA) (addr n : Nat) (avail : Block) : M (CBA × Block) := do
  let (a, avail) ←
    if avail.start < addr then do
      let (a, _, lo) ← a.split avail (addr - avail.start) false
      match lo with
      | some l => pure (a, l)
      | none => throw .attrNone
    else pure (a, avail)
  let (a, new, _) ← a.split avail n true
  pure (a, new)

/-- `alloc(n)` with choice oracle `k`: new state and the returned address (`none` = `None`). -/
def CBA.alloc (a : CBA) (n k : Nat) : M (CBA × Option Nat) := do
  match ← a.findAvailable n k with
  | none => pure (a, none)
  | some block =>
    let (a, new) ← a.reserveAt block.start n block
    pure (a, some new.start)

/-! ### `free` -/

/-- One coalescing step of `free`: `tmp = other.join(block)`; `dying` is the block whose array
    slot is cleared (`block` when merging with the previous block, `next` when merging with the
    next one). -/
def CBA.merge (a : CBA) (other block dying : Block) : M (CBA × Block) :=
  match other.join block with
  | none => pure (a, block)
  | some tmp => do
    let top := if dying.start == a.top then tmp.start else a.top
    let a ← a.setCell tmp.start (some tmp)
    let a ← a.setCell dying.start none
    let f := removeFreed (removeFreed a.freed other) block
    let f := if top > tmp.start then addFreed f tmp else f
    pure ({ a with top := top, freed := f }, tmp)

/-- `block.used = False` (in place, i.e. in the array cell it was read from) and
    `_add_to_freed(block)`. -/
def CBA.markFree (a : CBA) (addr : Nat) (b0 : Block) : M (CBA × Block) := do
  let block : Block := { b0 with used := false }
  let a ← a.setCell addr (some block)
  pure ({ a with freed := addFreed a.freed block }, block)

/-- the `prev = self._find_previous(addr)` part of `free`. -/
def CBA.mergePrev (a : CBA) (addr : Nat) (block : Block) : M (CBA × Block) := do
  match ← a.findPrevious addr with
  | some p => if !p.used then a.merge p block block else pure (a, block)
  | none => pure (a, block)

/-- the `next = self._find_next(block.start)` part of `free`. -/
def CBA.mergeNext (a : CBA) (block : Block) : M CBA := do
  match ← a.findNext block.start with
  | some nx => if !nx.used then do let (a, _) ← a.merge nx block nx; pure a else pure a
  | none => pure a

/-- `free(addr)`; `none` = `free(None)`. -/
def CBA.free (a : CBA) (addr : Option Nat) : M CBA :=
  match addr with
  | none => pure a
  | some addr =>
    -- not an address of this allocator (`fix:` D-C16-1 below the range, D-C17-4 above it)
    if addr < a.off || decide (addr - a.off ≥ a.size) then pure a
    else do
      match ← a.cell addr with
      | none => pure a
      | some b0 =>
        if !b0.used then pure a
        else do
          let (a, block) ← a.markFree addr b0
          let (a, block) ← a.mergePrev addr block
          a.mergeNext block

/-- `ContiguousBlockAllocator(size, pos, addr_offset)`; `none` = `IndexError` (`pos ≥ size`). -/
def CBA.init (size pos off : Nat) : Option CBA :=
  if pos < size then
    some { size := size, pos := pos + off, top := pos + off, off := off,
           array := (List.replicate size none).set pos (some ⟨pos + off, size - pos, false⟩),
           freed := [] }
  else none

/-- `blocks()`: the used blocks in address order. -/
def CBA.blocks (a : CBA) : List Block :=
  a.array.filterMap fun c => match c with
    | some b => if b.used then some b else none
    | none => none

/-! ### histories -/

inductive Op where
  | alloc (n k : Nat)
  | free (addr : Option Nat)
deriving Repr, DecidableEq

inductive Out where
  | addr (r : Option Nat)      -- result of `alloc`
  | unit                       -- `free` returns None
deriving Repr, DecidableEq

def CBA.step (a : CBA) : Op → M (CBA × Out)
  | .alloc n k => do let (a', r) ← a.alloc n k; pure (a', .addr r)
  | .free x => do let a' ← a.free x; pure (a', .unit)

def CBA.run (a : CBA) : List Op → M (CBA × List Out)
  | [] => pure (a, [])
  | op :: ops => do
    let (a', o) ← a.step op
    let (a'', os) ← a'.run ops
    pure (a'', o :: os)

/-! ### NodeIDAllocator -/

/-- the part of `bi.mod` after the fast paths (`int(math.fmod(a, b))`, sign fixed). -/
def scModRest (a b : Int) : Int :=
  if b == 0 then 0
  else
    let c := Int.tmod a b
    if c < 0 then c + b else c

/-- `sc3.base.builtins.mod` on Python ints. -/
def scMod (a b : Int) : Int :=
  if a ≥ b then
    let a' := a - b
    if a' < b then a' else scModRest a' b
  else if a < 0 then
    let a' := a + b
    if a' ≥ 0 then a' else scModRest a' b
  else a

/-- `bi.wrap(x, lo, hi)` for `type(x) is int`. -/
def wrapInt (x lo hi : Int) : Int := scMod (x - lo) (hi - lo + 1) + lo

def idMax : Int := 0x03FFFFFF

structure NIA where
  user : Nat
  initTemp : Int
  temp : Int
deriving Repr, DecidableEq

/-- `NodeIDAllocator(user, init_temp)`; `none` = the `Exception` for `user > 31`. -/
def NIA.init (user : Nat) (initTemp : Int) : Option NIA :=
  if user > 31 then none else some ⟨user, initTemp, initTemp⟩

/-- `alloc()`: `x | (user << 26)`; a negative `x` is outside the model's domain (`none`). -/
def NIA.alloc (a : NIA) : NIA × Option Nat :=
  ({ a with temp := wrapInt (a.temp + 1) a.initTemp idMax },
   if a.temp < 0 then none else some (a.temp.toNat ||| (a.user <<< 26)))

/-- the ids of `n` consecutive `alloc()` calls. -/
def NIA.allocs (a : NIA) : Nat → NIA × List (Option Nat)
  | 0 => (a, [])
  | n + 1 =>
    let (a', x) := a.alloc
    let (a'', xs) := a'.allocs n
    (a'', x :: xs)

end Sc3Verif.C16
