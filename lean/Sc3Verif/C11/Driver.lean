/-
C11 line-protocol driver:  `lake env lean --run Sc3Verif/C11/Driver.lean < lines`

  reset                         start a new case (prints `reset`)
  dims <nr> <nc> <nf>           number of routines / conditions / flow variables to print
  extclock T|F                  the outside plays routines on the case's other clock (TempoClock(1) / AppClock)
  rt <id> <gen|fun> <inval|noinval> <act> ; <act> ; …      define a routine body
  x <external op>               run one external operation to completion, print one line:
        <result>|<log>|<snapshot>

Tokens.  values: N  n<int>  bT bF  H  t<r>  U.   acts: `y v`, `raise`, `raiseb K|S|G|C` (KeyboardInterrupt / SystemExit / GeneratorExit / a custom BaseException), `rstop`, `yar v`, `ay v`,
`nest r c|p|e v`, `rop r play|pause|resume|stop|reset`, `wait c`, `sig c`, `unh c`,
`test c T|F`, `fvget f` (= waitFv f ; readFv f), `fvset f v`, `here`.
external ops: `next r v`, `tick`, `rop r o`, `sig c`, `unh c`, `test c T|F`, `fvset f v`.
-/
import Sc3Verif.C11.Model
open Sc3Verif.C11

def fmtVal : Val → String
  | .none => "N"
  | .num n => s!"n{n}"
  | .bool b => if b then "bT" else "bF"
  | .hang => "H"
  | .tup r => s!"t{r}"
  | .unbound => "U"

def fmtExc : Exc → String
  | .stop => "StopStream"
  | .paused => "PausedStream"
  | .value => "ValueError"
  | .runtime => "RuntimeError"
  | .routine => "RoutineException"
  | .generic => "Exception"
  | .keyboard => "KeyboardInterrupt"
  | .sysexit => "SystemExit"
  | .genexit => "GeneratorExit"
  | .custombase => "BaseBoom"

def fmtRes : Res → String
  | .val v => "v:" ++ fmtVal v
  | .exc e => "e:" ++ fmtExc e

def fmtROp : ROp → String
  | .play => "play" | .pause => "pause" | .resume => "resume" | .stop => "stop" | .reset => "reset"

def fmtSt : St → String
  | .init => "Init" | .running => "Running" | .suspended => "Suspended"
  | .paused => "Paused" | .done => "Done"

def fmtB (b : Bool) : String := if b then "T" else "F"

def fmtEv : Ev → String
  | .recv r v => s!"recv({r},{fmtVal v})"
  | .resumed r => s!"resumed({r})"
  | .nested r c res => s!"nested({r},{c},{fmtRes res})"
  | .op r t o refused => s!"op({r},{t},{fmtROp o},{if refused then "R" else "ok"})"
  | .here r b s => s!"here({r},{fmtB b},{s})"
  | .fv r f v => s!"fv({r},{f},{fmtVal v})"
  | .rebind r f => s!"rebind({r},{f})"

def fmtTT : TT → String
  | .main => "M" | .rt r => s!"r{r}" | .nil => "None"

def fmtNats (l : List Nat) : String := " ".intercalate (l.map toString)

def snapshot (m : M) (nr nc nf : Nat) : String :=
  let rs := (List.range nr).map fun i =>
    let R := m.rt i
    let term := match R.terminal with
      | none => "-"
      | some v => fmtVal v
    s!"r{i}={fmtSt R.state}/i{if R.pc.isSome then 1 else 0}/{fmtVal R.last}/{term}/k{if m.clk i then 1 else 0}"
  let q := "".intercalate (m.queue.map fun (t, k) => s!"({t},{k / 2}{if k % 2 == 1 then "*" else ""})")
  let cs := (List.range nc).map fun i =>
    let C := m.conds i
    s!"c{i}={fmtB C.test}[{fmtNats C.waiting}]"
  let fs := (List.range nf).map fun i =>
    let F := m.fvs i
    let v := match F.value with
      | none => "U"
      | some v => fmtVal v
    s!"f{i}={v}[{fmtNats F.waiting}]"
  ";".intercalate rs ++ s!"|cur={fmtTT m.cur}|t={m.mainSecs}|q={q}|" ++ ";".intercalate cs
    ++ "|" ++ ";".intercalate fs

def parseVal (s : String) : Option Val :=
  if s == "N" then some .none
  else if s == "bT" then some (.bool true)
  else if s == "bF" then some (.bool false)
  else if s == "H" then some .hang
  else if s == "U" then some .unbound
  else if s.startsWith "n" then (s.drop 1).toInt?.map .num
  else if s.startsWith "t" then (s.drop 1).toNat?.map .tup
  else none

def parseROp : String → Option ROp
  | "play" => some .play | "pause" => some .pause | "resume" => some .resume
  | "stop" => some .stop | "reset" => some .reset | _ => none

def parseMode : String → Option Mode
  | "c" => some .catch | "p" => some .prop | "e" => some .embed | _ => none

def parseB : String → Option Bool
  | "T" => some true | "F" => some false | _ => none

def parseAct (ws : List String) : Option (List Act) :=
  match ws with
  | ["y", v] => do some [.yield (← parseVal v)]
  | ["raise"] => some [.raise]
  | ["raiseb", "K"] => some [.raiseB .keyboard]
  | ["raiseb", "S"] => some [.raiseB .sysexit]
  | ["raiseb", "G"] => some [.raiseB .genexit]
  | ["raiseb", "C"] => some [.raiseB .custombase]
  | ["rstop"] => some [.raiseStop]
  | ["yar", v] => do some [.yar (← parseVal v)]
  | ["ay", v] => do some [.ay (← parseVal v)]
  | ["nest", r, md, v] => do some [.nest (← r.toNat?) (← parseMode md) (← parseVal v)]
  | ["rop", r, o] => do some [.rop (← r.toNat?) (← parseROp o)]
  | ["wait", c] => do some [.wait (← c.toNat?)]
  | ["sig", c] => do some [.signal (← c.toNat?)]
  | ["unh", c] => do some [.unhang (← c.toNat?)]
  | ["test", c, b] => do some [.setTest (← c.toNat?) (← parseB b)]
  | ["fvget", f] => do let f ← f.toNat?; some [.waitFv f, .readFv f]
  | ["fvset", f, v] => do some [.fvSet (← f.toNat?) (← parseVal v)]
  | ["here"] => some [.here]
  | _ => none

def splitActs (ws : List String) : List (List String) :=
  let rec go (cur : List String) (acc : List (List String)) : List String → List (List String)
    | [] => (if cur.isEmpty then acc else cur.reverse :: acc).reverse
    | w :: rest => if w == ";" then go [] (if cur.isEmpty then acc else cur.reverse :: acc) rest
                   else go (w :: cur) acc rest
  go [] [] ws

def parseScript (ws : List String) : Option (List Act) :=
  (splitActs ws).foldlM (fun acc a => do some (acc ++ (← parseAct a))) []

def parseX (ws : List String) : Option XOp :=
  match ws with
  | ["next", r, v] => do some (.next (← r.toNat?) (← parseVal v))
  | ["tick"] => some .tick
  | ["rop", r, o] => do some (.rop (← r.toNat?) (← parseROp o))
  | ["sig", c] => do some (.signal (← c.toNat?))
  | ["unh", c] => do some (.unhang (← c.toNat?))
  | ["test", c, b] => do some (.setTest (← c.toNat?) (← parseB b))
  | ["fvset", f, v] => do some (.fvSet (← f.toNat?) (← parseVal v))
  | _ => none

structure DS where
  m : M := {}
  nr : Nat := 0
  nc : Nat := 0
  nf : Nat := 0

def FUEL : Nat := 200000

partial def loop (h out : IO.FS.Stream) (s : DS) : IO Unit := do
  let line ← h.getLine
  if line.isEmpty then return ()
  let ws := (line.trimAscii.toString.splitOn " ").filter (· ≠ "")
  match ws with
  | [] => loop h out s
  | ["reset"] => out.putStrLn "reset"; loop h out {}
  | ["extclock", b] => loop h out { s with m := { s.m with extClock := b == "T" } }
  | ["dims", a, b, c] =>
    match a.toNat?, b.toNat?, c.toNat? with
    | some a, some b, some c => loop h out { s with nr := a, nc := b, nf := c }
    | _, _, _ => out.putStrLn "bad-dims"; loop h out s
  | "rt" :: id :: kind :: inv :: rest =>
    match id.toNat?, parseScript rest with
    | some id, some sc =>
      let R : Rt := { script := sc, isGen := kind == "gen", hasInval := inv == "inval" }
      loop h out { s with m := s.m.setRt id R }
    | _, _ => out.putStrLn "bad-rt"; loop h out s
  | "x" :: rest =>
    match parseX rest with
    | none => out.putStrLn "bad-op"; loop h out s
    | some x =>
      let m' := s.m.runOp x FUEL
      let res := if !m'.idle then "FUEL" else match m'.out with
        | none => "-"
        | some r => fmtRes r
      let lg := " ".intercalate (m'.log.reverse.map fmtEv)
      out.putStrLn (res ++ "|" ++ lg ++ "|" ++ snapshot m' s.nr s.nc s.nf)
      loop h out { s with m := m' }
  | _ => out.putStrLn "bad-line"; loop h out s

def main : IO Unit := do
  loop (← IO.getStdin) (← IO.getStdout) {}
