/-
C11 — Routines, conditions and flow variables obey their state machine.

Property theorems only (helpers are in `Lemmas.lean`, the documented table in `Spec.lean`).
All statements quantify over every program (any scripts for any number of routines,
conditions and flow variables) and every machine state reachable by any finite history of
external operations (`XOp`) and small steps, i.e. over all interleavings of operations issued
from outside and from inside routine bodies, at any nesting depth.
-/
import Sc3Verif.C11.Lemmas
namespace Sc3Verif.C11

/-- Initial machine for a program: every routine `Init`, nothing scheduled. -/
def M.start (prog : Nat → List Act × Bool × Bool) (tests : Nat → Bool) : M :=
  { rt := fun i => { script := (prog i).1, isGen := (prog i).2.1, hasInval := (prog i).2.2 }
    conds := fun c => { test := tests c } }

/-- Every state the library can be in: any history of external operations, each started when
    the previous one has finished, observed after any number of small steps. -/
inductive Reachable : M → Prop
  | start (prog tests) : Reachable (M.start prog tests)
  | inject {m : M} (x : XOp) : Reachable m → m.idle = true → Reachable (m.inject x)
  | step {m : M} : Reachable m → Reachable m.step

theorem reachable_inv {m : M} (h : Reachable m) : Inv m := by
  induction h with
  | start prog tests =>
    exact inv_of_empty (by intro r; simp [M.start]) (by intro r; simp [M.start]) rfl rfl (fun _ => rfl)
  | inject x _ hidle ih => exact inv_inject ih hidle x
  | step _ ih => exact inv_step ih

def M.stepN (m : M) : Nat → M
  | 0 => m
  | n + 1 => m.step.stepN n

theorem reachable_stepN {m : M} (h : Reachable m) (n : Nat) : Reachable (m.stepN n) := by
  induction n generalizing m with
  | zero => exact h
  | succ n ih => exact ih (Reachable.step h)

/-! ### Current thread and logical time (stack discipline) -/

/-- At every moment `main.current_tt` is the routine whose body is executing (the innermost
    active `next`), or the main thread when none is — although the code only ever follows
    `parent` pointers. -/
theorem current_tt_is_innermost {m : M} (h : Reachable m) : m.cur = topTT m.stack :=
  (reachable_inv h).cur_top

/-- The `parent` pointers spell exactly the chain of callers; routines that are not active
    have no parent; active routines are exactly the `Running` ones, each active once; all
    active routines (and the main thread) read the same logical time. -/
theorem parent_chain_is_call_stack {m : M} (h : Reachable m) :
    Chain m.rt m.cur m.stack ∧ m.stack.Nodup ∧ (∀ r, (m.rt r).state = .running ↔ r ∈ m.stack) ∧
    (∀ r, r ∉ m.stack → (m.rt r).parent = .nil) ∧ (∀ r ∈ m.stack, (m.rt r).secs = m.mainSecs) :=
  let hi := reachable_inv h
  ⟨hi.chain, hi.nodup, hi.running, hi.parentNil, hi.secs⟩

/-- When an external operation has finished — however the bodies involved exited — the
    current thread is the main thread again and nothing is left active. -/
theorem current_tt_main_when_idle {m : M} (h : Reachable m) (hidle : m.idle = true) :
    m.cur = .main ∧ m.stack = [] ∧ ∀ r, (m.rt r).parent = .nil := by
  have hi := reachable_inv h
  obtain ⟨h1, _, h3⟩ := hi.idle_shape hidle
  exact ⟨h3, h1, fun r => hi.parentNil r (by simp [h1])⟩

theorem suffix_step {m : M} {s : List Nat} (hsuf : s <:+ m.stack)
    (hlen : s.length ≤ m.step.stack.length) : s <:+ m.step.stack := by
  rcases (stackMove_step m).2 with h | ⟨r, h⟩ | h
  · rw [h]; exact hsuf
  · rw [h]; exact List.IsSuffix.trans hsuf (List.suffix_cons r m.stack)
  · rw [h] at hlen ⊢
    cases hst : m.stack with
    | nil => rw [hst] at hsuf; simpa using hsuf
    | cons x tl =>
      rw [hst] at hsuf hlen
      rcases List.suffix_cons_iff.mp hsuf with h' | h'
      · subst h'; simp at hlen; omega
      · simpa using h'

theorem mainSecs_stepN (m : M) (n : Nat) : (m.stepN n).mainSecs = m.mainSecs := by
  induction n generalizing m with
  | zero => rfl
  | succ n ih => rw [M.stepN, ih, (stackMove_step m).1]

/-- MAIN (`current_tt_restored`).  Take any reachable state — e.g. a body about to call
    `next` on another routine — and any execution from it during which the call stack never
    gets shallower than it was, ending at the original depth (i.e. everything that was
    called has exited: by yield, return, exception, `YieldAndReset`, `AlwaysYield`, refusal,
    at any nesting depth).  Then the call stack, `main.current_tt` and the logical time the
    current thread reads are exactly what they were. -/
theorem current_tt_restored {m : M} (h : Reachable m) (n : Nat)
    (hdeep : ∀ j, j ≤ n → m.stack.length ≤ (m.stepN j).stack.length)
    (hback : (m.stepN n).stack.length = m.stack.length) :
    (m.stepN n).stack = m.stack ∧ (m.stepN n).cur = m.cur ∧
    (m.stepN n).secsOf (m.stepN n).cur = m.secsOf m.cur := by
  have hsuf : ∀ j, j ≤ n → m.stack <:+ (m.stepN j).stack := by
    intro j
    induction j with
    | zero => intro _; exact List.suffix_refl _
    | succ j ih =>
      intro hj
      have h1 := ih (by omega)
      have hstep : m.stepN (j + 1) = (m.stepN j).step := by
        clear ih h1 hj hdeep hback h
        induction j generalizing m with
        | zero => rfl
        | succ j ih => simp only [M.stepN] at ih ⊢; exact ih
      rw [hstep]
      apply suffix_step h1
      rw [← hstep]; exact hdeep _ hj
  have hst : (m.stepN n).stack = m.stack :=
    ((hsuf n (Nat.le_refl n)).eq_of_length hback.symm).symm
  have hi := reachable_inv h
  have hi' := reachable_inv (reachable_stepN h n)
  refine ⟨hst, ?_, ?_⟩
  · rw [hi'.cur_top, hi.cur_top, hst]
  · rw [hi'.secsOf_cur, hi.secsOf_cur, mainSecs_stepN]

/-! ### The transition table -/

/-- `play / pause / resume / stop / reset`, applied by anyone to any routine in any state:
    refusal and new state are those of the documented table, no other routine changes,
    and a refused call changes nothing at all. -/
theorem transition_table_ops (m : M) (r : Nat) (o : ROp) :
    ((m.applyRop r o).2, ((m.applyRop r o).1.rt r).state) = Spec.rop (m.rt r).state o ∧
    (∀ i, i ≠ r → (m.applyRop r o).1.rt i = m.rt i) ∧
    ((m.applyRop r o).2 = true → (m.applyRop r o).1 = m) :=
  ⟨applyRop_table m r o, fun i hi => applyRop_rt_ne m r o i hi, applyRop_refused m r o⟩

/-- `next()` on entry, by state: Paused ⇒ `PausedStream`; Done ⇒ `StopStream` or the recorded
    terminal value; Running ⇒ refused; in these three cases nothing else changes.
    Init / Suspended ⇒ the routine becomes `Running` and the innermost active one. -/
theorem transition_table_next_entry (m : M) (r : Nat) (v : Val) :
    (match Spec.entry (m.rt r).state with
     | .raisesPaused => m.callNext r v = { m with pending := some (.exc .paused) }
     | .terminal => m.callNext r v = { m with pending := some (Spec.terminalResult (m.rt r).terminal) }
     | .refused => m.callNext r v = { m with pending := some (.exc .routine) }
     | .runs => m.callNext r v = m.enter r v ∧ ((m.enter r v).rt r).state = .running ∧
                (m.enter r v).stack = r :: m.stack) := by
  cases hst : (m.rt r).state <;> simp only [Spec.entry]
  · exact ⟨callNext_of_runs m r v (by simp [hst, Spec.entry]), by simp, rfl⟩
  · simp [M.callNext, hst]
  · exact ⟨callNext_of_runs m r v (by simp [hst, Spec.entry]), by simp, rfl⟩
  · simp [M.callNext, hst]
  · simp only [M.callNext, hst, Spec.terminalResult]
    cases (m.rt r).terminal <;> rfl

/-- Every change of a routine's state in one step is one of: a `next` enters it
    (Init/Suspended → Running, it becomes the innermost frame); its own body leaves
    (Running → Suspended/Done/Init, its frame is popped); or the running body applies
    `play/pause/resume/stop/reset` to it with the effect given by the table. -/
theorem transition_table_step {m : M} (h : Reachable m) (r : Nat) :
    (m.step.rt r).state = (m.rt r).state ∨
    (Spec.entry (m.rt r).state = .runs ∧ (m.step.rt r).state = .running ∧ m.step.stack = r :: m.stack) ∨
    (m.stack.head? = some r ∧ (m.rt r).state = .running ∧ (m.step.rt r).state ∈ Spec.exitStates ∧
        m.step.stack = m.stack.tail) ∨
    (∃ o, m.opNow r o ∧ (m.step.rt r).state = (Spec.rop (m.rt r).state o).2) := by
  have hi := reachable_inv h
  cases hs : m.stack with
  | nil => left; rw [step_rt_of_empty hs]
  | cons top rest =>
    by_cases hr : r = top
    · subst hr
      have hrun : (m.rt r).state = .running := (hi.running r).2 (by simp [hs])
      rcases step_top hi hs with h1 | h1
      · left; rw [h1.1, hrun]
      · right; right; left; exact ⟨by simp, hrun, h1.1, by simp [h1.2]⟩
    · rcases step_rt_other hs r hr with h1 | ⟨k, o, h1, h2, h3, h4⟩ | ⟨k, md, v, h1, h2, h3, h4⟩
      · left; rw [h1]
      · right; right; right
        refine ⟨o, ⟨top, rest, k, hs, h1, h2, h3⟩, ?_⟩
        rw [h4]
        exact (congrArg Prod.snd (applyRop_table m r o))
      · by_cases hruns : Spec.entry (m.rt r).state = .runs
        · right; left
          rw [h4, callNext_of_runs m r v hruns]
          exact ⟨hruns, by simp, by simp [hs]⟩
        · left; rw [h4, (callNext_rt_of_not_runs m r v hruns).1]

/-! ### Terminal states are sticky; Paused raises until resumed; self-operations are refused -/

/-- Once a routine is `Done` (exhausted, failed, stopped or ended by `AlwaysYield`), every
    `next()` on it — from anywhere — changes nothing and gives `StopStream`, or the recorded
    terminal value; and it stays `Done` with the same terminal value through every step and
    every external operation other than `reset()` on it. -/
theorem terminal_sticky {m : M} (h : Reachable m) (r : Nat) (hd : (m.rt r).state = .done) :
    (∀ v, m.callNext r v = { m with pending := some (Spec.terminalResult (m.rt r).terminal) }) ∧
    (¬ m.opNow r .reset →
        (m.step.rt r).state = .done ∧ (m.step.rt r).terminal = (m.rt r).terminal) ∧
    (∀ x, m.idle = true → x ≠ .rop r .reset →
        ((m.inject x).rt r).state = .done ∧ ((m.inject x).rt r).terminal = (m.rt r).terminal) := by
  have hi := reachable_inv h
  have hentry : Spec.entry (m.rt r).state ≠ .runs := by simp [hd, Spec.entry]
  have hop : ∀ (m0 : M) o, (m0.rt r).state = .done → o ≠ ROp.reset →
      ((m0.applyRop r o).1.rt r).state = .done ∧
      ((m0.applyRop r o).1.rt r).terminal = (m0.rt r).terminal := by
    intro m0 o hd0 ho
    refine ⟨?_, applyRop_terminal m0 r o ho⟩
    have := congrArg Prod.snd (applyRop_table m0 r o)
    simp only at this; rw [this, hd0]; cases o <;> simp_all [Spec.rop]
  refine ⟨?_, ?_, ?_⟩
  · intro v
    have := transition_table_next_entry m r v
    simpa [hd, Spec.entry] using this
  · intro hno
    cases hs : m.stack with
    | nil => rw [step_rt_of_empty hs]; exact ⟨hd, rfl⟩
    | cons top rest =>
      have hr : r ≠ top := by
        intro e; subst e
        have := (hi.running r).2 (by simp [hs]); rw [hd] at this; cases this
      rcases step_rt_other hs r hr with h1 | ⟨k, o, h1, h2, h3, h4⟩ | ⟨k, md, v, h1, h2, h3, h4⟩
      · rw [h1]; exact ⟨hd, rfl⟩
      · rw [h4]
        apply hop m o hd
        intro e; subst e; exact hno ⟨top, rest, k, hs, h1, h2, h3⟩
      · rw [h4, (callNext_rt_of_not_runs m r v hentry).1]; exact ⟨hd, rfl⟩
  · intro x hidle hx
    have hcall : ∀ (m0 : M) r' v, m0.rt = m.rt → ((m0.callNext r' v).rt r).state = .done ∧
        ((m0.callNext r' v).rt r).terminal = (m.rt r).terminal := by
      intro m0 r' v e
      by_cases hr : r = r'
      · subst hr
        rw [(callNext_rt_of_not_runs m0 r v (by rw [e]; exact hentry)).1, e]; exact ⟨hd, rfl⟩
      · rw [callNext_rt_ne _ _ _ _ hr, e]; exact ⟨hd, rfl⟩
    unfold M.inject
    simp only
    cases x with
    | next r' v => exact hcall _ r' v rfl
    | tick =>
      simp only
      split
      · exact ⟨hd, rfl⟩
      · exact hcall _ _ _ rfl
    | rop r' o =>
      simp only
      by_cases hr : r = r'
      · subst hr
        exact hop _ o hd (by intro e; subst e; exact hx rfl)
      · rw [applyRop_rt_ne _ _ _ _ hr]; exact ⟨hd, rfl⟩
    | signal c => simp only [signal_rt]; exact ⟨hd, trivial⟩
    | unhang c => simp only [releaseCond_rt]; exact ⟨hd, trivial⟩
    | setTest c b => exact ⟨hd, rfl⟩
    | fvSet f v => simp only [fvSet_rt]; exact ⟨hd, trivial⟩

/-- A `Paused` routine answers every `next()` with `PausedStream`, unchanged, and stays
    exactly as it is through every step except `play/resume/stop/reset` applied to it. -/
theorem paused_raises_until_resume {m : M} (h : Reachable m) (r : Nat)
    (hp : (m.rt r).state = .paused) :
    (∀ v, m.callNext r v = { m with pending := some (.exc .paused) }) ∧
    ((∀ o, m.opNow r o → o = .pause) → m.step.rt r = m.rt r) := by
  have hi := reachable_inv h
  have hentry : Spec.entry (m.rt r).state ≠ .runs := by simp [hp, Spec.entry]
  refine ⟨?_, ?_⟩
  · intro v
    have := transition_table_next_entry m r v
    simpa [hp, Spec.entry] using this
  · intro hno
    cases hs : m.stack with
    | nil => rw [step_rt_of_empty hs]
    | cons top rest =>
      have hr : r ≠ top := by
        intro e; subst e
        have := (hi.running r).2 (by simp [hs]); rw [hp] at this; cases this
      rcases step_rt_other hs r hr with h1 | ⟨k, o, h1, h2, h3, h4⟩ | ⟨k, md, v, h1, h2, h3, h4⟩
      · exact h1
      · have := hno o ⟨top, rest, k, hs, h1, h2, h3⟩
        subst this
        rw [h4]; simp [M.applyRop, hp]
      · rw [h4, (callNext_rt_of_not_runs m r v hentry).1]

/-- `stop`, `pause` and `reset` applied to a routine from inside itself — or from anything it
    is (transitively) running — are refused and change nothing at all. -/
theorem self_ops_refused {m : M} (h : Reachable m) (r : Nat) (hr : r ∈ m.stack) (o : ROp)
    (ho : o = .stop ∨ o = .pause ∨ o = .reset) : m.applyRop r o = (m, true) := by
  have hrun := ((reachable_inv h).running r).2 hr
  rcases ho with rfl | rfl | rfl <;> simp [M.applyRop, hrun]

/-- `reset()` from outside on a routine that is pending on ANY clock leaves its wake-up in the scheduler (only
    `_clock` goes back to the default): at that wake-up `next` finds the routine `Init` and restarts the body
    from the top (`transition_table_next_entry`), whichever clock delivers it. -/
theorem reset_keeps_pending_wakeup (m : M) (r : Nat) (h : (m.rt r).state ≠ .running) :
    (m.applyRop r .reset).1.queue = m.queue ∧ ((m.applyRop r .reset).1.rt r).state = .init ∧
    ((m.applyRop r .reset).1.rt r).pc = none ∧ (m.applyRop r .reset).1.clk r = false := by
  simp [M.applyRop, h, M.setClk]

/-- … and so is `next()` (repair D-C11-1): it raises and changes nothing. -/
theorem reentrant_next_refused {m : M} (h : Reachable m) (r : Nat) (hr : r ∈ m.stack) (v : Val) :
    m.callNext r v = { m with pending := some (.exc .routine) } := by
  have hrun := ((reachable_inv h).running r).2 hr
  have := transition_table_next_entry m r v
  simpa [hrun, Spec.entry] using this

/-! ### Conditions and flow variables -/

/-- The innermost body is about to execute action `a`. -/
def M.actNow (m : M) (a : Act) : Prop :=
  ∃ top rest k, m.stack = top :: rest ∧ m.pending = none ∧ (m.rt top).pc = some k ∧
    (m.rt top).script[k]? = some a

/-- `never_before`, part 1: `signal()` while the test is false does nothing at all. -/
theorem cond_signal_false_is_noop (m : M) (c : Nat) (h : (m.conds c).test = false) :
    m.signal c = m := by
  simp [M.signal, h]

/-- `signal()` with a true test (and `unhang()` always): afterwards every routine that was parked
    on the condition has exactly ONE pending wake-up on its own clock (`keyOf` = routine + `_clock`), at the
    signaller's logical time; no other wake-up changed; the waiting list is empty — so a second signal
    schedules nothing. -/
theorem cond_resumes_once_after_true_signal (m : M) (c : Nat) (h : (m.conds c).test = true) :
    (∀ r ∈ (m.conds c).waiting,
        entriesOf (m.keyOf r) (m.signal c).queue = [(m.secsOf m.cur, m.keyOf r)]) ∧
    (∀ k, (∀ a ∈ (m.conds c).waiting, k ≠ m.keyOf a) →
        (entriesOf k (m.signal c).queue).Perm (entriesOf k m.queue)) ∧
    ((m.signal c).conds c).waiting = [] ∧ ((m.signal c).conds c).test = true ∧
    (∀ i, i ≠ c → (m.signal c).conds i = m.conds i) ∧
    ((m.signal c).signal c).queue = (m.signal c).queue := by
  have hq := schedAll_entries (m.setCond c { m.conds c with waiting := [] }) (m.conds c).waiting
  have hsig : m.signal c = m.releaseCond c := by simp [M.signal, h]
  have hw : ((m.releaseCond c).conds c).waiting = [] := by simp [releaseCond_conds]
  have ht : ((m.releaseCond c).conds c).test = true := by simp [releaseCond_conds, h]
  have hsecs : (m.setCond c { m.conds c with waiting := [] }).secsOf
      (m.setCond c { m.conds c with waiting := [] }).cur = m.secsOf m.cur := by
    simp only [setCond_cur]; cases m.cur <;> rfl
  have hkey : ∀ r, (m.setCond c { m.conds c with waiting := [] }).keyOf r = m.keyOf r := fun _ => rfl
  rw [hsecs] at hq
  simp only [hkey] at hq
  refine ⟨by rw [hsig]; exact hq.1, by rw [hsig]; exact hq.2, by rw [hsig]; exact hw,
    by rw [hsig]; exact ht, ?_, ?_⟩
  · intro i hi; rw [hsig]; simp [releaseCond_conds, hi]
  · rw [hsig]
    simp only [M.signal, ht, if_true]
    simp [M.releaseCond, M.setCond, M.schedAll]

theorem secsOf_setCond (m : M) (c : Nat) (C : Cond) (t : TT) : (m.setCond c C).secsOf t = m.secsOf t := by
  cases t <;> rfl

/-- A body that executes `yield from cond.wait()` while the test is false parks the OUTERMOST
    routine of its call chain (the one a clock is playing) exactly once, yields the
    non-numeric `'hang'` (so nothing is rescheduled), and schedules nothing. -/
theorem cond_wait_parks_outermost_once {m : M} (h : Reachable m) {top : Nat} {rest : List Nat}
    {k c : Nat} (hs : m.stack = top :: rest) (hp : m.pending = none) (hk : (m.rt top).pc = some k)
    (ha : (m.rt top).script[k]? = some (.wait c)) (ht : (m.conds c).test = false) :
    (m.step.conds c).waiting = (m.conds c).waiting ++ [(top :: rest).getLast (by simp)] ∧
    m.step.pending = some (.val .hang) ∧ (m.step.rt top).state = .suspended ∧
    m.step.queue = m.queue ∧ m.step.stack = rest := by
  have hi := reachable_inv h
  have hcur : m.cur = .rt top := by rw [hi.cur_top, hs]; rfl
  have htp := hi.threadPlayer_outermost hs
  unfold M.step
  rw [hs]
  simp only [hk, hp]
  unfold M.execAct
  simp only [ha, ht, hcur]
  simp [M.setCond, htp, hs]

/-- … and while the test is true `wait()` yields `0`: the routine continues at the same
    logical time without being parked. -/
theorem cond_wait_true_continues {m : M} {top : Nat} {rest : List Nat}
    {k c : Nat} (hs : m.stack = top :: rest) (hp : m.pending = none) (hk : (m.rt top).pc = some k)
    (ha : (m.rt top).script[k]? = some (.wait c)) (ht : (m.conds c).test = true) :
    m.step.conds = m.conds ∧ m.step.pending = some (.val (.num 0)) := by
  unfold M.step
  rw [hs]
  simp only [hk, hp]
  unfold M.execAct
  simp [ha, ht]

/-- What the scheduler does with what `__awake__` returned: rescheduled (at the scheduled
    time plus the delta) iff the value is a number; `'hang'`, `None`, booleans and every
    exception leave the queue alone. -/
theorem tick_reschedules_iff_number (m : M) (t : Int) (key : Nat) (res : Res) :
    (m.finishTick t key res).queue =
      match res with
      | .val (.num d) => enqueue (t + d, key) m.queue
      | _ => m.queue := by
  unfold M.finishTick
  split <;> simp

/-- `never_before`, part 2: while the test of `c` is false, no step other than `unhang()`
    on `c` removes anybody from its waiting list (routines are only ever appended). -/
theorem cond_never_before {m : M} (c : Nat) (hf : (m.conds c).test = false)
    (hu : ¬ m.actNow (.unhang c)) : (m.conds c).waiting <+: (m.step.conds c).waiting := by
  unfold M.step
  split
  · unfold M.finishTick
    repeat' split
    all_goals exact List.prefix_refl _
  · rename_i top rest hs
    simp only
    split
    · exact List.prefix_refl _
    · rename_i k hk
      split
      · unfold M.handleReturn
        simp only
        repeat' split
        all_goals simp
      · rename_i hp
        unfold M.execAct
        split
        · split <;> simp
        · rename_i a ha
          cases a with
          | wait c' =>
            simp only
            repeat' split
            all_goals simp [M.setCond]
            split
            · rename_i e; subst e; simp
            · simp
          | signal c' =>
            simp only [advance_conds]
            by_cases e : c' = c
            · subst e; rw [cond_signal_false_is_noop m c' hf]; simp
            · unfold M.signal; split
              · simp [releaseCond_conds, Ne.symm e]
              · simp
          | unhang c' =>
            simp only [advance_conds]
            by_cases e : c' = c
            · subst e; exact absurd ⟨top, rest, k, hs, hp, hk, ha⟩ hu
            · simp [releaseCond_conds, Ne.symm e]
          | setTest c' b =>
            simp only [advance_conds, M.setCond]
            split
            · rename_i e; subst e; simp
            · simp
          | waitFv f => simp only; repeat' split
                        all_goals simp
          | fvSet f v => simp only; split <;> simp
          | rop r' o => simp
          | nest r' md v => simp
          | _ => simp

/-- A flow variable is assigned at most once: once bound, no step and no external operation
    changes its value, and every further assignment is refused. -/
theorem flowvar_single_assignment {m : M} (f : Nat) (v : Val) (hb : (m.fvs f).value = some v) :
    (m.step.fvs f).value = some v ∧ (∀ x, ((m.inject x).fvs f).value = some v) ∧
    (∀ w, m.fvSet f w = (m, true)) := by
  refine ⟨?_, ?_, ?_⟩
  · unfold M.step
    split
    · unfold M.finishTick
      repeat' split
      all_goals exact hb
    · simp only
      split
      · exact hb
      · split
        · unfold M.handleReturn
          simp only
          repeat' split
          all_goals simpa using hb
        · unfold M.execAct
          split
          · split <;> simpa using hb
          · rename_i a ha
            cases a with
            | waitFv f' =>
              simp only
              repeat' split
              all_goals simp [M.setFv]
              all_goals (try split)
              all_goals simp_all
            | fvSet f' w =>
              simp only
              split <;> simp [fvSet_value_bound _ _ _ _ _ hb]
            | wait c => simp only; repeat' split
                        all_goals simpa using hb
            | _ => simpa using hb
  · intro x
    unfold M.inject
    cases x with
    | tick => simp only; split <;> simpa using hb
    | fvSet f' w => simp only; exact fvSet_value_bound _ _ _ _ _ hb
    | _ => simpa using hb
  · intro w
    simp [M.fvSet, hb]

/-! ### The model has no junk: its "unreachable" branches are unreachable -/

/-- In every reachable state each active frame has a script position, every frame below the top
    stands at the `nest` action that called the frame above it, and a result travelling back
    always finds the `nest` action that is waiting for it.  Hence the two defensive branches of
    `step` (`pc = none` for an active frame, a pending result at a non-`nest` action) never
    execute: the machine is exactly the interpreter described, nothing else. -/
theorem call_stack_well_formed {m : M} (h : Reachable m) : WFStack m := by
  induction h with
  | start prog tests =>
    exact ⟨trivial, fun r rest _ hst _ => by simp [M.start] at hst⟩
  | inject x hr hidle _ => exact wf_inject (reachable_inv hr) hidle x
  | step hr ih => exact wf_step (reachable_inv hr) ih

theorem active_frame_has_position {m : M} (h : Reachable m) {top : Nat} {rest : List Nat}
    (hs : m.stack = top :: rest) : ∃ k, (m.rt top).pc = some k := by
  have := (call_stack_well_formed h).frames
  rw [hs] at this
  exact Option.isSome_iff_exists.mp (frames_top_pc this)

theorem pending_result_meets_its_nest {m : M} (h : Reachable m) {top : Nat} {rest : List Nat} {res : Res}
    (hs : m.stack = top :: rest) (hp : m.pending = some res) :
    ∃ k r' md v, (m.rt top).pc = some k ∧ (m.rt top).script[k]? = some (.nest r' md v) := by
  obtain ⟨k, r', md, v, h1, h2, _⟩ := (call_stack_well_formed h).pendingNest top rest res hs hp
  exact ⟨k, r', md, v, h1, h2⟩

/-! ### Non-vacuity: concrete reachable machines exercising the hypotheses -/

/-- r0 = `[nest 1 catch, yield 1]`, r1 = `[rop 0 stop, nest 0 catch, yield 2]`:
    r1, running inside r0, tries to stop and to re-enter r0. -/
def demoProg : Nat → List Act × Bool × Bool
  | 0 => ([.nest 1 .catch .none, .yield (.num 1)], true, false)
  | 1 => ([.rop 0 .stop, .nest 0 .catch .none, .yield (.num 2)], true, false)
  | _ => ([], true, false)

def demo0 : M := (M.start demoProg fun _ => false).inject (.next 0 .none)

theorem demo0_reachable : Reachable demo0 := Reachable.inject _ (Reachable.start _ _) rfl

/-- Depth 2 is reached (r1 inside r0), the self-stop and the re-entrant `next` are both
    refused there, and after 8 steps the operation has finished with the main thread current. -/
example : (demo0.stepN 1).stack = [1, 0] ∧ (demo0.stepN 1).cur = .rt 1 ∧
    (demo0.stepN 8).stack = [] ∧ (demo0.stepN 8).cur = .main ∧ (demo0.stepN 8).idle = true ∧
    (demo0.stepN 8).out = some (.val (.num 1)) ∧
    ((demo0.stepN 8).rt 0).state = .suspended ∧ ((demo0.stepN 8).rt 1).state = .suspended := by
  decide

example : (demo0.stepN 1).applyRop 0 .stop = (demo0.stepN 1, true) :=
  self_ops_refused (reachable_stepN demo0_reachable 1) 0 (by decide) .stop (Or.inl rfl)

/-- `current_tt_restored` instantiated: from the state where r0 is about to call r1
    (depth 1) until r1 has yielded back (5 steps later). -/
example : (demo0.stepN 5).stack = demo0.stack ∧ (demo0.stepN 5).cur = demo0.cur :=
  let h := current_tt_restored demo0_reachable 5
    (by intro j hj; have : j = 0 ∨ j = 1 ∨ j = 2 ∨ j = 3 ∨ j = 4 ∨ j = 5 := by omega
        rcases this with rfl | rfl | rfl | rfl | rfl | rfl <;> decide)
    (by decide)
  ⟨h.1, h.2.1⟩

end Sc3Verif.C11
