/-
C11 — the documented state machine of a routine (the specification the theorems refer to).
Read this file first: it is the whole "transition table".
-/
import Sc3Verif.C11.Model
namespace Sc3Verif.C11.Spec

/-- `play / pause / resume / stop / reset` applied to a routine in state `s`:
    `(refused, new state)`.  `refused` = `RoutineException`, state unchanged. -/
def rop : St → ROp → Bool × St
  | .init,      .play   => (false, .suspended)
  | .paused,    .play   => (false, .suspended)
  | s,          .play   => (false, s)
  | .running,   .pause  => (true,  .running)
  | .init,      .pause  => (false, .paused)
  | .suspended, .pause  => (false, .paused)
  | s,          .pause  => (false, s)
  | .paused,    .resume => (false, .suspended)
  | s,          .resume => (false, s)
  | .running,   .stop   => (true,  .running)
  | _,          .stop   => (false, .done)
  | .running,   .reset  => (true,  .running)
  | _,          .reset  => (false, .init)

/-- What `next()` does on entry, by state. -/
inductive Entry where
  | runs                       -- Init / Suspended: the body runs to its next yield / end
  | raisesPaused               -- Paused: PausedStream, nothing changes
  | terminal                   -- Done: StopStream or the recorded terminal value, nothing changes
  | refused                    -- Running: RoutineException, nothing changes
deriving DecidableEq, Repr

def entry : St → Entry
  | .init | .suspended => .runs
  | .paused => .raisesPaused
  | .done => .terminal
  | .running => .refused

/-- The result a `Done` routine gives to every `next()`. -/
def terminalResult : Option Val → Res
  | none => .exc .stop
  | some v => .val v

/-- States a running body can leave its routine in: yielded / returned, failed or
    `AlwaysYield` / `YieldAndReset`. -/
def exitStates : List St := [.suspended, .done, .init]

end Sc3Verif.C11.Spec
