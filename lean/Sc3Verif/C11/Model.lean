/-
C11 — executable small-step model of `sc3/base/stream.py` `Routine` / `Condition` / `FlowVar`
and of the pieces of `main.py` / `clock.py` they touch in non-real-time mode
(`main.current_tt`, `TimeThread.parent`, `_m_seconds`, `SystemClock.sched` → `ClockTask`,
one iteration of `ClockScheduler.run`).

Shape.  A routine body is a finite script over a behaviour alphabet (`Act`): yield a value,
return (end of script), raise (an `Exception` or a bare `BaseException`), raise `StopStream`, raise `YieldAndReset` / `AlwaysYield`, call
`next` on another routine (catching everything / letting exceptions propagate / embedding the
returned value with a `yield`), apply `play/pause/resume/stop/reset` to a routine, wait on a
`Condition` or a `FlowVar`, signal / unhang / set the test, bind a `FlowVar`, log.

The machine state `M` carries, exactly as the code does, the global `current_tt` pointer
(`cur`), every routine's `parent` pointer and `_m_seconds`, and — separately — the *Python
call stack* of the active `Routine.next` calls (`stack`, innermost first).  Nothing in the
step function reads the call stack to restore `cur`: on exit `cur := parent` as in the
`finally:` clause of `Routine.next`.  That the two always agree is the theorem
`current_tt_restored` (Props.lean).

`step` executes one action of the innermost active body (or delivers the result of a
finished callee to its caller, or finishes the external operation).  External operations
(`XOp`: the history alphabet) are injected when the machine is idle.

Modelled exactly: the guards and the `try/except/finally` of `Routine.next` (including
PEP 479: a `StopIteration` subclass escaping a generator body becomes `RuntimeError`, whereas
for a plain-function routine it reaches the `except StopStream:` clause), `play`, `pause`,
`resume`, `stop`, `reset`, `Condition.wait/signal/unhang`, `TimeThread.thread_player`,
`FlowVar.value` getter/setter, NRT `SystemClock.sched(0, ·)`, `ClockTask._wakeup`.
The model describes the code AFTER the repairs D-C11-1 (`next` on a running routine is
refused), D-C11-2 (`reset` forgets the terminal value) and D12 (one pending scheduler entry per
routine).
Abstracted: the scheduler queue is the stable sorted list C09 proves `TaskQueue` to be;
time = `Int` ticks; routines play on SystemClock or on ONE other clock object per case (a TempoClock of
tempo 1 or AppClock: same logical time, different `_clock` identity); values are a small enum.
Core Lean only (loaded by the driver).
-/
namespace Sc3Verif.C11

inductive St where
  | init | running | suspended | paused | done
deriving Repr, DecidableEq, Inhabited

inductive Val where
  | none | num (n : Int) | bool (b : Bool) | hang | tup (r : Nat) | unbound
deriving Repr, DecidableEq, Inhabited

/-- Exception classes: StopStream, PausedStream, ValueError, RuntimeError, RoutineException,
    plain `Exception` (FlowVar rebind, `wait` outside a routine). -/
inductive Exc where
  | stop | paused | value | runtime | routine | generic
  | keyboard | sysexit | genexit | custombase     -- BaseException that is not an Exception
deriving Repr, DecidableEq, Inhabited

/-- `BaseException` subclasses outside `Exception`: `except Exception` does not catch them. -/
def Exc.isBase : Exc → Bool
  | .keyboard | .sysexit | .genexit | .custombase => true
  | _ => false

inductive Res where
  | val (v : Val) | exc (e : Exc)
deriving Repr, DecidableEq, Inhabited

/-- A time thread reference: `main.main_tt`, a routine, or Python `None`. -/
inductive TT where
  | main | rt (r : Nat) | nil
deriving Repr, DecidableEq, Inhabited

inductive ROp where
  | play | pause | resume | stop | reset
deriving Repr, DecidableEq, Inhabited

inductive Mode where
  | catch | prop | embed
deriving Repr, DecidableEq, Inhabited

inductive Act where
  | yield (v : Val)
  | raise
  | raiseB (e : Exc)
  | raiseStop
  | yar (v : Val)
  | ay (v : Val)
  | nest (r : Nat) (mode : Mode) (v : Val)
  | rop (r : Nat) (o : ROp)
  | wait (c : Nat)
  | signal (c : Nat)
  | unhang (c : Nat)
  | setTest (c : Nat) (b : Bool)
  | waitFv (f : Nat)
  | readFv (f : Nat)
  | fvSet (f : Nat) (v : Val)
  | here
deriving Repr, DecidableEq, Inhabited

inductive Ev where
  | recv (r : Nat) (v : Val)
  | resumed (r : Nat)
  | nested (r callee : Nat) (res : Res)
  | op (r target : Nat) (o : ROp) (refused : Bool)
  | here (r : Nat) (curIsSelf : Bool) (secs : Int)
  | fv (r f : Nat) (v : Val)
  | rebind (r f : Nat)
deriving Repr, DecidableEq

structure Rt where
  script : List Act := []
  isGen : Bool := true
  hasInval : Bool := false
  state : St := .init
  pc : Option Nat := none          -- `_iterator`: `none` = None, `some k` = next action is `k`
  last : Val := .none              -- `_last_value`
  terminal : Option Val := none    -- `_terminal_value` (`none` = `_SENTINEL`)
  parent : TT := .nil
  secs : Int := 0                  -- `_m_seconds`
deriving Repr, Inhabited

structure Cond where
  test : Bool := false
  waiting : List Nat := []
deriving Repr, Inhabited

structure FV where
  value : Option Val := none       -- `none` = `_UNBOUND`
  waiting : List Nat := []
deriving Repr, Inhabited

/-- What the bottom of the Python call stack is doing. -/
inductive Ext where
  | idle | next | tick (t : Int) (key : Nat)
deriving Repr, DecidableEq, Inhabited

structure M where
  rt : Nat → Rt := fun _ => {}
  cur : TT := .main                -- `main.current_tt`
  mainSecs : Int := 0              -- `main.main_tt._m_seconds`
  stack : List Nat := []           -- active `Routine.next` calls, innermost first
  pending : Option Res := none     -- result travelling from a finished callee to its caller
  ext : Ext := .idle
  queue : List (Int × Nat) := []   -- `main._clock_scheduler.queue` as (time, routine)
  conds : Nat → Cond := fun _ => {}
  fvs : Nat → FV := fun _ => {}
  log : List Ev := []              -- newest first
  out : Option Res := none         -- outcome of the last external `next`
  clk : Nat → Bool := fun _ => false   -- `_clock` of each routine: `false` = SystemClock (the default),
                                       -- `true` = the other clock object of the case (a TempoClock(1) / AppClock)
  extClock : Bool := false         -- which clock the outside passes to `play(clock)`

instance : Inhabited M := ⟨{}⟩

def M.setRt (m : M) (r : Nat) (R : Rt) : M :=
  { m with rt := fun i => if i = r then R else m.rt i }

def M.setCond (m : M) (c : Nat) (C : Cond) : M :=
  { m with conds := fun i => if i = c then C else m.conds i }

def M.setFv (m : M) (f : Nat) (F : FV) : M :=
  { m with fvs := fun i => if i = f then F else m.fvs i }

def M.addLog (m : M) (e : Ev) : M := { m with log := e :: m.log }

/-- `tt._seconds`. -/
def M.secsOf (m : M) : TT → Int
  | .main => m.mainSecs
  | .rt r => (m.rt r).secs
  | .nil => 0

/-- Stable insertion by time (what C09 proves about `TaskQueue.add`). -/
def insertQ (e : Int × Nat) : List (Int × Nat) → List (Int × Nat)
  | [] => [e]
  | x :: xs => if e.1 < x.1 then e :: x :: xs else x :: insertQ e xs

/-- `ClockScheduler.add`: a routine has at most one pending entry (per clock; here there is only
    SystemClock) — an older entry is dropped, as `TaskQueue.add` does in the real-time queues. -/
def enqueue (e : Int × Nat) (q : List (Int × Nat)) : List (Int × Nat) :=
  insertQ e (q.filter fun x => x.2 != e.2)

/-- Key of a scheduler entry: the pair (routine, clock object); `ClockScheduler` keeps one pending entry per
    (clock, task).  All NRT clocks feed the one queue and read the same logical time (the other clock is a
    TempoClock of tempo 1 or AppClock), so only the identity of the clock matters. -/
def qkey (r : Nat) (alt : Bool) : Nat := 2 * r + (if alt then 1 else 0)

def M.setClk (m : M) (r : Nat) (b : Bool) : M :=
  { m with clk := fun i => if i = r then b else m.clk i }

/-- The clock `play()` uses when none is given: the current thread's `_clock`; the outside passes one. -/
def M.playClock (m : M) : Bool :=
  match m.cur with
  | .rt c => m.clk c
  | _ => m.extClock

def M.schedKey (m : M) (key : Nat) : M :=
  { m with queue := enqueue (m.secsOf m.cur, key) m.queue }

/-- NRT `r._clock.sched(0, r)` called by the current thread. -/
def M.sched (m : M) (r : Nat) : M := m.schedKey (qkey r (m.clk r))

def M.schedAll (m : M) : List Nat → M
  | [] => m
  | r :: rs => (m.sched r).schedAll rs

/-- `TimeThread.thread_player` (no `_thread_player` set): follow `parent` while it is a
    routine.  `fuel` bounds the walk by the call depth. -/
def M.tpAux (m : M) : Nat → Nat → Nat
  | 0, r => r
  | fuel + 1, r =>
    match (m.rt r).parent with
    | .rt p => m.tpAux fuel p
    | _ => r

def M.threadPlayer (m : M) (r : Nat) : Nat := m.tpAux m.stack.length r

/-! ### Operations on a routine other than `next` -/

/-- Result of `play/pause/resume/stop/reset` applied to `r` by the current thread:
    the new machine and whether the call was refused (`RoutineException`). -/
def M.applyRop (m : M) (r : Nat) (o : ROp) : M × Bool :=
  let R := m.rt r
  match o with
  | .play =>
    if R.state = .init ∨ R.state = .paused then
      (((m.setRt r { R with state := .suspended }).setClk r m.playClock).sched r, false)
    else (m, false)
  | .pause =>
    if R.state = .running then (m, true)
    else if R.state = .init ∨ R.state = .suspended then
      (m.setRt r { R with state := .paused }, false)
    else (m, false)
  | .resume =>
    if R.state = .paused then
      ((m.setRt r { R with state := .suspended }).sched r, false)
    else (m, false)
  | .stop =>
    if R.state = .running then (m, true)
    else ((m.setRt r { R with pc := none, last := .none, state := .done }).setClk r false, false)
  | .reset =>
    if R.state = .running then (m, true)
    else ((m.setRt r { R with pc := none, terminal := none, state := .init }).setClk r false, false)

/-- `Condition.signal` body once the test is known to be true / `unhang`. -/
def M.releaseCond (m : M) (c : Nat) : M :=
  let C := m.conds c
  (m.setCond c { C with waiting := [] }).schedAll C.waiting

def M.signal (m : M) (c : Nat) : M :=
  if (m.conds c).test then m.releaseCond c else m

/-- `FlowVar.value = v`: `true` = "cannot rebind". -/
def M.fvSet (m : M) (f : Nat) (v : Val) : M × Bool :=
  let F := m.fvs f
  match F.value with
  | some _ => (m, true)
  | none => ((m.setFv f { value := some v, waiting := [] }).schedAll F.waiting, false)

/-! ### `Routine.next` -/

/-- What the body logs when it is resumed with `v`: after a plain/embedded `yield` the sent
    value, after a wait nothing but the fact. -/
def resumeEv (r : Nat) (R : Rt) (k : Nat) (v : Val) : Ev :=
  match R.script[k - 1]? with
  | some (.wait _) => .resumed r
  | some (.waitFv _) => .resumed r
  | _ => .recv r v

/-- The log line the body writes when `next(v)` starts / resumes it. -/
def M.enterLog (m : M) (r : Nat) (v : Val) : M :=
  match (m.rt r).pc with
  | none => if (m.rt r).hasInval then m.addLog (.recv r v) else m
  | some k => m.addLog (resumeEv r (m.rt r) k v)

/-- Position at which the body continues: a fresh generator starts at 0. -/
def startPc : Option Nat → Nat
  | none => 0
  | some k => k

/-- `parent = current_tt; current_tt = self; _m_seconds = parent._seconds; state = Running`
    and the creation / resumption of the generator. -/
def M.enter (m : M) (r : Nat) (v : Val) : M :=
  { (m.enterLog r v).setRt r
      { m.rt r with parent := m.cur, secs := m.secsOf m.cur, state := .running,
                    pc := some (startPc (m.rt r).pc) } with
    cur := .rt r, stack := r :: m.stack, pending := none }

/-- Entry part of `r.next(v)` called by the current thread: the guards, then `enter`. -/
def M.callNext (m : M) (r : Nat) (v : Val) : M :=
  match (m.rt r).state with
  | .paused => { m with pending := some (.exc .paused) }
  | .done =>
    { m with pending := some (match (m.rt r).terminal with
                              | none => .exc .stop
                              | some t => .val t) }
  | .running => { m with pending := some (.exc .routine) }
  | _ => m.enter r v

/-- Exit part of `next` (`finally: current_tt = self.parent; self.parent = None`) with the
    routine record `R` as updated by the `try/except` clause taken, delivering `res`. -/
def M.exit (m : M) (r : Nat) (R : Rt) (res : Res) : M :=
  { m.setRt r { R with parent := .nil } with
    cur := R.parent, stack := m.stack.tail, pending := some res }

/-- `exit` through the `except StopStream:` / `except StopIteration:` clauses, which also put `_clock` back
    to SystemClock. -/
def M.exitRc (m : M) (r : Nat) (R : Rt) (res : Res) : M := (m.exit r R res).setClk r false

/-- An exception `e` surfaces in the body of the innermost routine `r` and is not caught. -/
def M.raiseIn (m : M) (r : Nat) (R : Rt) (e : Exc) : M :=
  if R.isGen then
    -- PEP 479: StopIteration subclasses leaving a generator frame become RuntimeError
    let e' := if e = .stop ∨ e = .paused then Exc.runtime else e
    m.exit r { R with state := .done } (.exc e')
  else
    match e with
    | .stop | .paused => m.exitRc r { R with pc := none, last := .none, state := .done } (.exc e)
    | _ => m.exit r { R with pc := none, state := .done } (.exc e)

/-- The body yields `v` while standing at action `k`. -/
def M.yieldVal (m : M) (r : Nat) (R : Rt) (k : Nat) (v : Val) : M :=
  m.exit r { R with pc := some (k + 1), last := v, state := .suspended } (.val v)

def M.advance (m : M) (r : Nat) (R : Rt) (k : Nat) : M :=
  m.setRt r { R with pc := some (k + 1) }

/-- One action of the innermost body (`pending = none`). -/
def M.execAct (m : M) (r : Nat) (R : Rt) (k : Nat) : M :=
  match R.script[k]? with
  | none =>
    if R.isGen then
      m.exitRc r { R with pc := none, last := .none, state := .done } (.exc .stop)
    else
      m.exit r { R with pc := none, terminal := some .none, state := .done, last := .none } (.val .none)
  | some a =>
    match a with
    | .yield v => m.yieldVal r R k v
    | .raise => m.raiseIn r R .value
    | .raiseB e => m.raiseIn r R e
    | .raiseStop => m.raiseIn r R .stop
    | .yar v => m.exit r { R with pc := none, state := .init, last := v } (.val v)
    | .ay v => m.exit r { R with pc := none, terminal := some v, state := .done, last := v } (.val v)
    | .nest r' _ v => m.callNext r' v
    | .rop r' o =>
      let (m', refused) := m.applyRop r' o
      (m'.addLog (.op r r' o refused)).advance r (m'.rt r) k
    | .wait c =>
      if (m.conds c).test then m.yieldVal r R k (.num 0)
      else
        match m.cur with
        | .rt c0 =>
          let C := m.conds c
          (m.setCond c { C with waiting := C.waiting ++ [m.threadPlayer c0] }).yieldVal r R k .hang
        | _ => m.raiseIn r R .generic
    | .signal c => (m.signal c).advance r R k
    | .unhang c => (m.releaseCond c).advance r R k
    | .setTest c b => (m.setCond c { m.conds c with test := b }).advance r R k
    | .waitFv f =>
      if (m.fvs f).value.isSome then m.yieldVal r R k (.num 0)
      else
        match m.cur with
        | .rt c0 =>
          let F := m.fvs f
          (m.setFv f { F with waiting := F.waiting ++ [m.threadPlayer c0] }).yieldVal r R k .hang
        | _ => m.raiseIn r R .generic
    | .readFv f =>
      (m.addLog (.fv r f (match (m.fvs f).value with
                          | some v => v
                          | none => .unbound))).advance r R k
    | .fvSet f v =>
      let (m', rebind) := m.fvSet f v
      (if rebind then m'.addLog (.rebind r f) else m').advance r R k
    | .here => (m.addLog (.here r (m.cur == .rt r) (m.secsOf m.cur))).advance r R k

/-- The innermost body receives the outcome `res` of the `next` it called at action `k`. -/
def M.handleReturn (m : M) (r : Nat) (R : Rt) (k : Nat) (res : Res) : M :=
  let m0 := { m with pending := none }
  match R.script[k]? with
  | some (.nest r' .catch _) =>
    match res with
    | .val _ => (m0.addLog (.nested r r' res)).advance r R k
    | .exc e =>
      -- the body catches with `except Exception`: KeyboardInterrupt & co. pass through
      if e.isBase then m0.raiseIn r R e else (m0.addLog (.nested r r' res)).advance r R k
  | some (.nest r' .prop _) =>
    match res with
    | .val _ => (m0.addLog (.nested r r' res)).advance r R k
    | .exc e => m0.raiseIn r R e
  | some (.nest r' .embed _) =>
    match res with
    | .val v => m0.yieldVal r R k v
    | .exc .stop => (m0.addLog (.nested r r' res)).advance r R k
    | .exc .paused => (m0.addLog (.nested r r' res)).advance r R k
    | .exc e => m0.raiseIn r R e
  | _ => m0

/-- `ClockTask._wakeup` after `__awake__` returned / raised. -/
def M.finishTick (m : M) (t : Int) (key : Nat) (res : Res) : M :=
  let m0 := { m with pending := none, ext := .idle, out := some res }
  match res with
  | .val (.num d) => { m0 with queue := enqueue (t + d, key) m0.queue }
  | _ => m0

/-- One small step.  Idle machines do not move. -/
def M.step (m : M) : M :=
  match m.stack with
  | [] =>
    match m.pending with
    | none => m
    | some res =>
      match m.ext with
      | .idle => m
      | .next => { m with pending := none, ext := .idle, out := some res }
      | .tick t key => m.finishTick t key res
  | r :: _ =>
    let R := m.rt r
    match R.pc with
    | none => m       -- unreachable: an active frame always has a generator / position
    | some k =>
      match m.pending with
      | some res => m.handleReturn r R k res
      | none => m.execAct r R k

def M.idle (m : M) : Bool := m.ext == .idle

/-! ### External operations (the history alphabet) -/

inductive XOp where
  | next (r : Nat) (v : Val)
  | tick
  | rop (r : Nat) (o : ROp)
  | signal (c : Nat)
  | unhang (c : Nat)
  | setTest (c : Nat) (b : Bool)
  | fvSet (f : Nat) (v : Val)
deriving Repr, DecidableEq

/-- Start an external operation on an idle machine.  Atomic ones finish immediately and
    leave the machine idle; `next` / `tick` leave it busy until `step` has emptied the stack. -/
def M.inject (m : M) (x : XOp) : M :=
  let m := { m with out := none, log := [] }
  match x with
  | .next r v => ({ m with ext := .next }).callNext r v
  | .tick =>
    match m.queue with
    | [] => m
    | (t, key) :: q =>
      -- the popped ClockTask wakes its routine (`key / 2`) and, if re-queued, keeps its clock (`key`)
      ({ m with queue := q, mainSecs := t, ext := .tick t key }).callNext (key / 2) (.tup (key / 2))
  | .rop r o =>
    let (m', refused) := m.applyRop r o
    { m' with out := some (if refused then .exc .routine else .val .none) }
  | .signal c => { m.signal c with out := some (.val .none) }
  | .unhang c => { m.releaseCond c with out := some (.val .none) }
  | .setTest c b => { m.setCond c { m.conds c with test := b } with out := some (.val .none) }
  | .fvSet f v =>
    let (m', rebind) := m.fvSet f v
    { m' with out := some (if rebind then .exc .generic else .val .none) }

def M.steps (m : M) : Nat → M
  | 0 => m
  | n + 1 => if m.idle then m else m.step.steps n

/-- Run one external operation to completion (or until the fuel is exhausted, in which case
    the machine is left busy and the driver reports it). -/
def M.runOp (m : M) (x : XOp) (fuel : Nat) : M := (m.inject x).steps fuel

end Sc3Verif.C11
