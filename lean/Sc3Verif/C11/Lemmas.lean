/-
C11 — helper lemmas: field projections of the primitive operations, the stack/pointer
invariant `Inv` and its preservation by `inject` and `step`.
-/
import Sc3Verif.C11.Spec
namespace Sc3Verif.C11

/-! ### Projections of the primitives -/

section proj
variable (m : M)

@[simp] theorem setRt_rt_same (r : Nat) (R : Rt) : (m.setRt r R).rt r = R := by simp [M.setRt]
theorem setRt_rt (r : Nat) (R : Rt) (i : Nat) :
    (m.setRt r R).rt i = if i = r then R else m.rt i := rfl
@[simp] theorem setRt_rt_ne (r : Nat) (R : Rt) (i : Nat) (h : i ≠ r) : (m.setRt r R).rt i = m.rt i := by
  simp [M.setRt, h]
@[simp] theorem setRt_cur (r : Nat) (R : Rt) : (m.setRt r R).cur = m.cur := rfl
@[simp] theorem setRt_stack (r : Nat) (R : Rt) : (m.setRt r R).stack = m.stack := rfl
@[simp] theorem setRt_mainSecs (r : Nat) (R : Rt) : (m.setRt r R).mainSecs = m.mainSecs := rfl
@[simp] theorem setRt_ext (r : Nat) (R : Rt) : (m.setRt r R).ext = m.ext := rfl
@[simp] theorem setRt_pending (r : Nat) (R : Rt) : (m.setRt r R).pending = m.pending := rfl
@[simp] theorem setRt_conds (r : Nat) (R : Rt) : (m.setRt r R).conds = m.conds := rfl
@[simp] theorem setRt_fvs (r : Nat) (R : Rt) : (m.setRt r R).fvs = m.fvs := rfl
@[simp] theorem setRt_queue (r : Nat) (R : Rt) : (m.setRt r R).queue = m.queue := rfl

@[simp] theorem setCond_rt (c : Nat) (C : Cond) : (m.setCond c C).rt = m.rt := rfl
@[simp] theorem setCond_cur (c : Nat) (C : Cond) : (m.setCond c C).cur = m.cur := rfl
@[simp] theorem setCond_stack (c : Nat) (C : Cond) : (m.setCond c C).stack = m.stack := rfl
@[simp] theorem setCond_mainSecs (c : Nat) (C : Cond) : (m.setCond c C).mainSecs = m.mainSecs := rfl
@[simp] theorem setCond_ext (c : Nat) (C : Cond) : (m.setCond c C).ext = m.ext := rfl
@[simp] theorem setCond_pending (c : Nat) (C : Cond) : (m.setCond c C).pending = m.pending := rfl
@[simp] theorem setCond_fvs (c : Nat) (C : Cond) : (m.setCond c C).fvs = m.fvs := rfl
@[simp] theorem setCond_queue (c : Nat) (C : Cond) : (m.setCond c C).queue = m.queue := rfl

@[simp] theorem setFv_rt (c : Nat) (C : FV) : (m.setFv c C).rt = m.rt := rfl
@[simp] theorem setFv_cur (c : Nat) (C : FV) : (m.setFv c C).cur = m.cur := rfl
@[simp] theorem setFv_stack (c : Nat) (C : FV) : (m.setFv c C).stack = m.stack := rfl
@[simp] theorem setFv_mainSecs (c : Nat) (C : FV) : (m.setFv c C).mainSecs = m.mainSecs := rfl
@[simp] theorem setFv_ext (c : Nat) (C : FV) : (m.setFv c C).ext = m.ext := rfl
@[simp] theorem setFv_pending (c : Nat) (C : FV) : (m.setFv c C).pending = m.pending := rfl
@[simp] theorem setFv_conds (c : Nat) (C : FV) : (m.setFv c C).conds = m.conds := rfl
@[simp] theorem setFv_queue (c : Nat) (C : FV) : (m.setFv c C).queue = m.queue := rfl

@[simp] theorem addLog_rt (e : Ev) : (m.addLog e).rt = m.rt := rfl
@[simp] theorem addLog_cur (e : Ev) : (m.addLog e).cur = m.cur := rfl
@[simp] theorem addLog_stack (e : Ev) : (m.addLog e).stack = m.stack := rfl
@[simp] theorem addLog_mainSecs (e : Ev) : (m.addLog e).mainSecs = m.mainSecs := rfl
@[simp] theorem addLog_ext (e : Ev) : (m.addLog e).ext = m.ext := rfl
@[simp] theorem addLog_pending (e : Ev) : (m.addLog e).pending = m.pending := rfl
@[simp] theorem addLog_conds (e : Ev) : (m.addLog e).conds = m.conds := rfl
@[simp] theorem addLog_fvs (e : Ev) : (m.addLog e).fvs = m.fvs := rfl
@[simp] theorem addLog_queue (e : Ev) : (m.addLog e).queue = m.queue := rfl

@[simp] theorem setClk_rt (r : Nat) (b : Bool) : (m.setClk r b).rt = m.rt := rfl
@[simp] theorem setClk_cur (r : Nat) (b : Bool) : (m.setClk r b).cur = m.cur := rfl
@[simp] theorem setClk_stack (r : Nat) (b : Bool) : (m.setClk r b).stack = m.stack := rfl
@[simp] theorem setClk_mainSecs (r : Nat) (b : Bool) : (m.setClk r b).mainSecs = m.mainSecs := rfl
@[simp] theorem setClk_ext (r : Nat) (b : Bool) : (m.setClk r b).ext = m.ext := rfl
@[simp] theorem setClk_pending (r : Nat) (b : Bool) : (m.setClk r b).pending = m.pending := rfl
@[simp] theorem setClk_conds (r : Nat) (b : Bool) : (m.setClk r b).conds = m.conds := rfl
@[simp] theorem setClk_fvs (r : Nat) (b : Bool) : (m.setClk r b).fvs = m.fvs := rfl
@[simp] theorem setClk_queue (r : Nat) (b : Bool) : (m.setClk r b).queue = m.queue := rfl
@[simp] theorem sched_rt (r : Nat) : (m.sched r).rt = m.rt := rfl
@[simp] theorem sched_cur (r : Nat) : (m.sched r).cur = m.cur := rfl
@[simp] theorem sched_stack (r : Nat) : (m.sched r).stack = m.stack := rfl
@[simp] theorem sched_mainSecs (r : Nat) : (m.sched r).mainSecs = m.mainSecs := rfl
@[simp] theorem sched_ext (r : Nat) : (m.sched r).ext = m.ext := rfl
@[simp] theorem sched_pending (r : Nat) : (m.sched r).pending = m.pending := rfl
@[simp] theorem sched_conds (r : Nat) : (m.sched r).conds = m.conds := rfl
@[simp] theorem sched_fvs (r : Nat) : (m.sched r).fvs = m.fvs := rfl

end proj

/-- The part of the machine the pointer invariant talks about. -/
structure CoreEq (m m' : M) : Prop where
  rt : m'.rt = m.rt
  cur : m'.cur = m.cur
  stack : m'.stack = m.stack
  mainSecs : m'.mainSecs = m.mainSecs
  ext : m'.ext = m.ext
  pending : m'.pending = m.pending

theorem CoreEq.refl (m : M) : CoreEq m m := ⟨rfl, rfl, rfl, rfl, rfl, rfl⟩

theorem CoreEq.trans {a b c : M} (h1 : CoreEq a b) (h2 : CoreEq b c) : CoreEq a c :=
  ⟨h2.rt.trans h1.rt, h2.cur.trans h1.cur, h2.stack.trans h1.stack,
   h2.mainSecs.trans h1.mainSecs, h2.ext.trans h1.ext, h2.pending.trans h1.pending⟩

theorem coreEq_sched (m : M) (r : Nat) : CoreEq m (m.sched r) := ⟨rfl, rfl, rfl, rfl, rfl, rfl⟩
theorem coreEq_setClk (m : M) (r : Nat) (b : Bool) : CoreEq m (m.setClk r b) := ⟨rfl, rfl, rfl, rfl, rfl, rfl⟩
theorem coreEq_addLog (m : M) (e : Ev) : CoreEq m (m.addLog e) := ⟨rfl, rfl, rfl, rfl, rfl, rfl⟩
theorem coreEq_setCond (m : M) (c : Nat) (C : Cond) : CoreEq m (m.setCond c C) :=
  ⟨rfl, rfl, rfl, rfl, rfl, rfl⟩
theorem coreEq_setFv (m : M) (c : Nat) (C : FV) : CoreEq m (m.setFv c C) :=
  ⟨rfl, rfl, rfl, rfl, rfl, rfl⟩

theorem coreEq_schedAll (m : M) (l : List Nat) : CoreEq m (m.schedAll l) := by
  induction l generalizing m with
  | nil => exact CoreEq.refl m
  | cons r rs ih => exact (coreEq_sched m r).trans (ih _)

theorem coreEq_releaseCond (m : M) (c : Nat) : CoreEq m (m.releaseCond c) :=
  (coreEq_setCond m c _).trans (coreEq_schedAll _ _)

theorem coreEq_signal (m : M) (c : Nat) : CoreEq m (m.signal c) := by
  unfold M.signal; split
  · exact coreEq_releaseCond m c
  · exact CoreEq.refl m

theorem coreEq_fvSet (m : M) (f : Nat) (v : Val) : CoreEq m (m.fvSet f v).1 := by
  unfold M.fvSet
  cases h : (m.fvs f).value with
  | some x => simp only [h]; exact CoreEq.refl m
  | none => simp only [h]; exact (coreEq_setFv m f _).trans (coreEq_schedAll _ _)

/-! ### The invariant -/

/-- `cur` followed through the `parent` pointers spells the call stack and ends in the
    main thread. -/
def Chain (rt : Nat → Rt) : TT → List Nat → Prop
  | c, [] => c = .main
  | c, r :: rest => c = .rt r ∧ Chain rt (rt r).parent rest

theorem chain_congr {rt rt' : Nat → Rt} {c : TT} {s : List Nat}
    (h : ∀ r ∈ s, (rt' r).parent = (rt r).parent) (hc : Chain rt c s) : Chain rt' c s := by
  induction s generalizing c with
  | nil => exact hc
  | cons r rest ih =>
    obtain ⟨h1, h2⟩ := hc
    refine ⟨h1, ?_⟩
    rw [h r (by simp)]
    exact ih (fun r' hr' => h r' (by simp [hr'])) h2

structure Inv (m : M) : Prop where
  nodup : m.stack.Nodup
  running : ∀ r, (m.rt r).state = .running ↔ r ∈ m.stack
  chain : Chain m.rt m.cur m.stack
  parentNil : ∀ r, r ∉ m.stack → (m.rt r).parent = .nil
  secs : ∀ r ∈ m.stack, (m.rt r).secs = m.mainSecs
  idle : m.ext = .idle → m.stack = [] ∧ m.pending = none

theorem Inv.of_coreEq {m m' : M} (h : CoreEq m m') (hi : Inv m) : Inv m' := by
  obtain ⟨h1, h2, h3, h4, h5, h6⟩ := h
  constructor
  · rw [h3]; exact hi.nodup
  · rw [h1, h3]; exact hi.running
  · rw [h1, h2, h3]; exact hi.chain
  · rw [h1, h3]; exact hi.parentNil
  · rw [h1, h3, h4]; exact hi.secs
  · rw [h5, h3, h6]; exact hi.idle

/-- `cur` is the innermost active routine, or the main thread when nothing is active. -/
def topTT : List Nat → TT
  | [] => .main
  | r :: _ => .rt r

theorem Inv.cur_top {m : M} (hi : Inv m) : m.cur = topTT m.stack := by
  have := hi.chain
  cases hs : m.stack with
  | nil => rw [hs] at this; exact this
  | cons r rest => rw [hs] at this; exact this.1

theorem Inv.secsOf_cur {m : M} (hi : Inv m) : m.secsOf m.cur = m.mainSecs := by
  rw [hi.cur_top]
  cases hs : m.stack with
  | nil => rfl
  | cons r rest => exact hi.secs r (by simp [hs])

/-- Changing, for routines that are not active, anything but making them `running`,
    and for any routine only fields the invariant does not mention. -/
theorem Inv.of_rt_update {m : M} (hi : Inv m) (r : Nat) (R : Rt)
    (hstate : R.state = .running ↔ (m.rt r).state = .running)
    (hparent : R.parent = (m.rt r).parent) (hsecs : R.secs = (m.rt r).secs) :
    Inv (m.setRt r R) := by
  constructor
  · exact hi.nodup
  · intro i
    by_cases h : i = r
    · subst h; simp [hstate, hi.running]
    · simp [h, hi.running]
  · apply chain_congr _ hi.chain
    intro i _
    by_cases h : i = r
    · subst h; simp [hparent]
    · simp [h]
  · intro i hni
    by_cases h : i = r
    · subst h; simp [hparent]; exact hi.parentNil _ hni
    · simp [h]; exact hi.parentNil _ hni
  · intro i hin
    by_cases h : i = r
    · subst h; simp [hsecs]; exact hi.secs _ hin
    · simp [h]; exact hi.secs _ hin
  · exact hi.idle

/-! ### Preservation -/

theorem inv_applyRop {m : M} (hi : Inv m) (r : Nat) (o : ROp) : Inv (m.applyRop r o).1 := by
  unfold M.applyRop
  cases o <;> simp only
  · split
    · rename_i h
      apply Inv.of_coreEq (coreEq_sched _ _)
      apply Inv.of_coreEq (coreEq_setClk _ _ _)
      apply hi.of_rt_update <;> simp
      rcases h with h | h <;> simp [h]
    · exact hi
  · split
    · exact hi
    · split
      · rename_i h1 h
        apply hi.of_rt_update <;> simp
        exact h1
      · exact hi
  · split
    · rename_i h
      apply Inv.of_coreEq (coreEq_sched _ _)
      apply hi.of_rt_update <;> simp
      simp [h]
    · exact hi
  · split
    · exact hi
    · rename_i h
      apply Inv.of_coreEq (coreEq_setClk _ _ _)
      apply hi.of_rt_update <;> simp
      exact h
  · split
    · exact hi
    · rename_i h
      apply Inv.of_coreEq (coreEq_setClk _ _ _)
      apply hi.of_rt_update <;> simp
      exact h

/-- `applyRop` never touches the pointer / stack / bookkeeping fields. -/
theorem applyRop_frame (m : M) (r : Nat) (o : ROp) :
    (m.applyRop r o).1.cur = m.cur ∧ (m.applyRop r o).1.stack = m.stack ∧
    (m.applyRop r o).1.mainSecs = m.mainSecs ∧ (m.applyRop r o).1.ext = m.ext ∧
    (m.applyRop r o).1.pending = m.pending ∧ (m.applyRop r o).1.conds = m.conds ∧
    (m.applyRop r o).1.fvs = m.fvs ∧ ∀ i, i ≠ r → (m.applyRop r o).1.rt i = m.rt i := by
  unfold M.applyRop
  cases o <;> simp only <;> repeat' split
  all_goals simp +contextual

theorem inv_advance {m : M} (hi : Inv m) (r k : Nat) : Inv (m.advance r (m.rt r) k) := by
  unfold M.advance
  apply hi.of_rt_update <;> simp

theorem coreEq_enterLog (m : M) (r : Nat) (v : Val) : CoreEq m (m.enterLog r v) := by
  unfold M.enterLog
  split
  · split
    · exact coreEq_addLog _ _
    · exact CoreEq.refl m
  · exact coreEq_addLog _ _

/-- Pushing a frame. -/
theorem inv_enter {m : M} (hi : Inv m) (hne : m.ext ≠ .idle) (r : Nat) (v : Val)
    (hnr : (m.rt r).state ≠ .running) : Inv (m.enter r v) := by
  have hns : r ∉ m.stack := fun h => hnr ((hi.running r).2 h)
  obtain ⟨e1, e2, e3, e4, e5, e6⟩ := coreEq_enterLog m r v
  unfold M.enter
  constructor
  · simp; exact ⟨hns, hi.nodup⟩
  · intro i
    by_cases h : i = r
    · subst h; simp [M.setRt]
    · simp [M.setRt, h, e1, hi.running]
  · refine ⟨rfl, ?_⟩
    simp only [M.setRt, if_true]
    apply chain_congr _ hi.chain
    intro i hin
    have : i ≠ r := fun h => hns (h ▸ hin)
    simp [this, e1]
  · intro i hni
    simp at hni
    simp [M.setRt, hni.1, e1]
    exact hi.parentNil i hni.2
  · intro i hin
    simp at hin
    by_cases h : i = r
    · subst h; simp [M.setRt, e4]; exact hi.secsOf_cur
    · simp [M.setRt, h, e1, e4]
      exact hi.secs i (by rcases hin with h' | h'; exact absurd h' h; exact h')
  · intro h; simp [M.setRt, e5] at h; exact absurd h hne

theorem inv_setPending {m : M} (hi : Inv m) (hne : m.ext ≠ .idle) (p : Option Res) :
    Inv ({ m with pending := p } : M) :=
  ⟨hi.nodup, hi.running, hi.chain, hi.parentNil, hi.secs, fun h => absurd h hne⟩

theorem inv_callNext {m : M} (hi : Inv m) (hne : m.ext ≠ .idle) (r : Nat) (v : Val) :
    Inv (m.callNext r v) := by
  unfold M.callNext
  split
  · exact inv_setPending hi hne _
  · exact inv_setPending hi hne _
  · exact inv_setPending hi hne _
  · rename_i hp hd hr
    exact inv_enter hi hne r v hr

theorem Inv.ext_ne_idle {m : M} (hi : Inv m) {r : Nat} {rest : List Nat}
    (hs : m.stack = r :: rest) : m.ext ≠ .idle := by
  intro h; have := (hi.idle h).1; rw [hs] at this; cases this

/-- Popping the innermost frame. -/
theorem inv_exit {m : M} (hi : Inv m) {r : Nat} {rest : List Nat} (hs : m.stack = r :: rest)
    (R : Rt) (hp : R.parent = (m.rt r).parent) (hst : R.state ≠ .running) (res : Res) :
    Inv (m.exit r R res) := by
  have hne := hi.ext_ne_idle hs
  have hnd := hi.nodup
  rw [hs] at hnd
  have hrn : r ∉ rest := (List.nodup_cons.mp hnd).1
  have hch := hi.chain
  rw [hs] at hch
  unfold M.exit
  constructor
  · simp [hs]; exact (List.nodup_cons.mp hnd).2
  · intro i
    by_cases h : i = r
    · subst h; simp [M.setRt, hs, hst, hrn]
    · have := hi.running i
      simp [hs, h] at this
      simp [M.setRt, h, hs, this]
  · simp only [hs, List.tail_cons, hp]
    apply chain_congr _ hch.2
    intro i hin
    have : i ≠ r := fun h => hrn (h ▸ hin)
    simp [M.setRt, this]
  · intro i hni
    simp [hs] at hni
    by_cases h : i = r
    · subst h; simp [M.setRt]
    · simp [M.setRt, h]
      apply hi.parentNil
      simp [hs, h, hni]
  · intro i hin
    simp [hs] at hin
    have : i ≠ r := fun h => hrn (h ▸ hin)
    simp [M.setRt, this]
    exact hi.secs i (by simp [hs, hin])
  · intro h; exact absurd h hne

theorem inv_exitRc {m : M} (hi : Inv m) {r : Nat} {rest : List Nat} (hs : m.stack = r :: rest)
    (R : Rt) (hp : R.parent = (m.rt r).parent) (hst : R.state ≠ .running) (res : Res) :
    Inv (m.exitRc r R res) :=
  Inv.of_coreEq (coreEq_setClk _ _ _) (inv_exit hi hs R hp hst res)

theorem inv_raiseIn {m : M} (hi : Inv m) {r : Nat} {rest : List Nat} (hs : m.stack = r :: rest)
    (R : Rt) (hp : R.parent = (m.rt r).parent) (e : Exc) : Inv (m.raiseIn r R e) := by
  unfold M.raiseIn
  split
  · (refine inv_exit hi hs _ ?_ ?_ _ <;> simp [hp])
  · split
    · (refine inv_exitRc hi hs _ ?_ ?_ _ <;> simp [hp])
    · (refine inv_exitRc hi hs _ ?_ ?_ _ <;> simp [hp])
    · (refine inv_exit hi hs _ ?_ ?_ _ <;> simp [hp])

theorem inv_yieldVal {m : M} (hi : Inv m) {r : Nat} {rest : List Nat} (hs : m.stack = r :: rest)
    (R : Rt) (hp : R.parent = (m.rt r).parent) (k : Nat) (v : Val) : Inv (m.yieldVal r R k v) := by
  unfold M.yieldVal
  refine inv_exit hi hs _ ?_ ?_ _ <;> simp [hp]

theorem inv_advance' {m : M} (hi : Inv m) (r k : Nat) (R : Rt) (h : R = m.rt r) :
    Inv (m.advance r R k) := by subst h; exact inv_advance hi r k

theorem inv_execAct {m : M} (hi : Inv m) {r : Nat} {rest : List Nat} (hs : m.stack = r :: rest)
    (k : Nat) : Inv (m.execAct r (m.rt r) k) := by
  have hne := hi.ext_ne_idle hs
  unfold M.execAct
  split
  · split
    · (refine inv_exitRc hi hs _ ?_ ?_ _ <;> simp)
    · (refine inv_exit hi hs _ ?_ ?_ _ <;> simp)
  · rename_i a _
    cases a with
    | yield v =>
      simp only
      exact inv_yieldVal hi hs _ rfl _ _
    | raise =>
      simp only
      exact inv_raiseIn hi hs _ rfl _
    | raiseB e =>
      simp only
      exact inv_raiseIn hi hs _ rfl _
    | raiseStop =>
      simp only
      exact inv_raiseIn hi hs _ rfl _
    | yar v =>
      simp only
      (refine inv_exit hi hs _ ?_ ?_ _ <;> simp)
    | ay v =>
      simp only
      (refine inv_exit hi hs _ ?_ ?_ _ <;> simp)
    | nest r' md v =>
      simp only
      exact inv_callNext hi hne _ _
    | rop r' o =>
      simp only
     
      have h1 := inv_applyRop hi r' o
      have h2 := Inv.of_coreEq (coreEq_addLog _ (.op r r' o (m.applyRop r' o).2)) h1
      exact inv_advance' h2 r k _ rfl
    | wait c =>
      simp only
     
      split
      · exact inv_yieldVal hi hs _ rfl _ _
      · split
        · have h1 := Inv.of_coreEq (coreEq_setCond m c
            { m.conds c with waiting := (m.conds c).waiting ++ [m.threadPlayer ‹Nat›] }) hi
          exact inv_yieldVal h1 (by simpa using hs) _ rfl _ _
        · exact inv_raiseIn hi hs _ rfl _
    | signal c =>
      simp only
     
      exact inv_advance' (Inv.of_coreEq (coreEq_signal m c) hi) r k _ (by rw [(coreEq_signal m c).rt])
    | unhang c =>
      simp only
     
      exact inv_advance' (Inv.of_coreEq (coreEq_releaseCond m c) hi) r k _
        (by rw [(coreEq_releaseCond m c).rt])
    | setTest c b =>
      simp only
     
      exact inv_advance' (Inv.of_coreEq (coreEq_setCond m c _) hi) r k _ rfl
    | waitFv f =>
      simp only
     
      split
      · exact inv_yieldVal hi hs _ rfl _ _
      · split
        · have h1 := Inv.of_coreEq (coreEq_setFv m f
            { m.fvs f with waiting := (m.fvs f).waiting ++ [m.threadPlayer ‹Nat›] }) hi
          exact inv_yieldVal h1 (by simpa using hs) _ rfl _ _
        · exact inv_raiseIn hi hs _ rfl _
    | readFv f =>
      simp only
      exact inv_advance' (Inv.of_coreEq (coreEq_addLog _ _) hi) r k _ rfl
    | fvSet f v =>
      simp only
     
      have h1 := Inv.of_coreEq (coreEq_fvSet m f v) hi
      have hrt := (coreEq_fvSet m f v).rt
      split
      · exact inv_advance' (Inv.of_coreEq (coreEq_addLog _ _) h1) r k _ (by simp [hrt])
      · exact inv_advance' h1 r k _ (by simp [hrt])
    | here =>
      simp only
      exact inv_advance' (Inv.of_coreEq (coreEq_addLog _ _) hi) r k _ rfl

theorem inv_handleReturn {m : M} (hi : Inv m) {r : Nat} {rest : List Nat}
    (hs : m.stack = r :: rest) (k : Nat) (res : Res) : Inv (m.handleReturn r (m.rt r) k res) := by
  have hne := hi.ext_ne_idle hs
  have h0 : Inv ({ m with pending := none } : M) := inv_setPending hi hne none
  have hs0 : ({ m with pending := none } : M).stack = r :: rest := hs
  unfold M.handleReturn
  simp only
  split
  · split
    · exact inv_advance' (Inv.of_coreEq (coreEq_addLog _ _) h0) r k _ rfl
    · split
      · exact inv_raiseIn h0 hs0 _ rfl _
      · exact inv_advance' (Inv.of_coreEq (coreEq_addLog _ _) h0) r k _ rfl
  · split
    · exact inv_advance' (Inv.of_coreEq (coreEq_addLog _ _) h0) r k _ rfl
    · exact inv_raiseIn h0 hs0 _ rfl _
  · split
    · exact inv_yieldVal h0 hs0 _ rfl _ _
    · exact inv_advance' (Inv.of_coreEq (coreEq_addLog _ _) h0) r k _ rfl
    · exact inv_advance' (Inv.of_coreEq (coreEq_addLog _ _) h0) r k _ rfl
    · exact inv_raiseIn h0 hs0 _ rfl _
  · exact h0

/-- An idle-shaped machine: nothing active, `cur` is the main thread. -/
theorem inv_of_empty {m : M} (hrun : ∀ r, (m.rt r).state ≠ .running)
    (hpar : ∀ r, (m.rt r).parent = .nil) (hc : m.cur = .main) (hs : m.stack = [])
    (hp : m.ext = .idle → m.pending = none) : Inv m := by
  constructor
  · simp [hs]
  · intro r; simp [hs, hrun r]
  · rw [hs, hc]; rfl
  · intro r _; exact hpar r
  · intro r h; simp [hs] at h
  · intro h; exact ⟨hs, hp h⟩

theorem inv_step {m : M} (hi : Inv m) : Inv m.step := by
  unfold M.step
  split
  · rename_i hs
    split
    · exact hi
    · split
      · exact hi
      · exact ⟨hi.nodup, hi.running, hi.chain, hi.parentNil, hi.secs, fun _ => ⟨hs, rfl⟩⟩
      · unfold M.finishTick
        simp only
        split <;>
          exact ⟨hi.nodup, hi.running, hi.chain, hi.parentNil, hi.secs, fun _ => ⟨hs, rfl⟩⟩
  · rename_i r rest hs
    simp only
    split
    · exact hi
    · split
      · exact inv_handleReturn hi hs _ _
      · exact inv_execAct hi hs _

theorem Inv.idle_shape {m : M} (hi : Inv m) (h : m.idle = true) :
    m.stack = [] ∧ m.pending = none ∧ m.cur = .main := by
  have he : m.ext = .idle := by simpa [M.idle] using h
  obtain ⟨h1, h2⟩ := hi.idle he
  refine ⟨h1, h2, ?_⟩
  have := hi.cur_top; rw [h1] at this; exact this

theorem inv_inject {m : M} (hi : Inv m) (h : m.idle = true) (x : XOp) : Inv (m.inject x) := by
  obtain ⟨hs, hp, hc⟩ := hi.idle_shape h
  have he : m.ext = .idle := by simpa [M.idle] using h
  have hi0 : Inv ({ m with out := none, log := [] } : M) :=
    ⟨hi.nodup, hi.running, hi.chain, hi.parentNil, hi.secs, hi.idle⟩
  unfold M.inject
  simp only
  cases x with
  | next r v =>
    simp only
    apply inv_callNext _ (by simp)
    exact ⟨hi.nodup, hi.running, hi.chain, hi.parentNil, hi.secs, fun h => by simp at h⟩
  | tick =>
    simp only
    split
    · exact hi0
    · apply inv_callNext _ (by simp)
      refine ⟨hi.nodup, hi.running, hi.chain, hi.parentNil, ?_, fun h => by simp at h⟩
      intro r hr; simp [hs] at hr
  | rop r o =>
    simp only
    have h1 := inv_applyRop hi0 r o
    exact ⟨h1.nodup, h1.running, h1.chain, h1.parentNil, h1.secs, h1.idle⟩
  | signal c =>
    simp only
    have h1 := Inv.of_coreEq (coreEq_signal _ c) hi0
    exact ⟨h1.nodup, h1.running, h1.chain, h1.parentNil, h1.secs, h1.idle⟩
  | unhang c =>
    simp only
    have h1 := Inv.of_coreEq (coreEq_releaseCond _ c) hi0
    exact ⟨h1.nodup, h1.running, h1.chain, h1.parentNil, h1.secs, h1.idle⟩
  | setTest c b =>
    simp only
    have h1 := Inv.of_coreEq (coreEq_setCond _ c { ({ m with out := none, log := [] } : M).conds c with test := b }) hi0
    exact ⟨h1.nodup, h1.running, h1.chain, h1.parentNil, h1.secs, h1.idle⟩
  | fvSet f v =>
    simp only
    have h1 := Inv.of_coreEq (coreEq_fvSet _ f v) hi0
    exact ⟨h1.nodup, h1.running, h1.chain, h1.parentNil, h1.secs, h1.idle⟩

/-! ### Frame facts: what each primitive does to the stack, the clock and the other tables -/

section frame
variable (m : M)

@[simp] theorem exit_stack (r : Nat) (R : Rt) (res : Res) : (m.exit r R res).stack = m.stack.tail := rfl
@[simp] theorem exit_mainSecs (r : Nat) (R : Rt) (res : Res) : (m.exit r R res).mainSecs = m.mainSecs := rfl
@[simp] theorem exit_conds (r : Nat) (R : Rt) (res : Res) : (m.exit r R res).conds = m.conds := rfl
@[simp] theorem exit_fvs (r : Nat) (R : Rt) (res : Res) : (m.exit r R res).fvs = m.fvs := rfl
@[simp] theorem exit_queue (r : Nat) (R : Rt) (res : Res) : (m.exit r R res).queue = m.queue := rfl
@[simp] theorem exit_ext (r : Nat) (R : Rt) (res : Res) : (m.exit r R res).ext = m.ext := rfl
@[simp] theorem exit_pending (r : Nat) (R : Rt) (res : Res) : (m.exit r R res).pending = some res := rfl
@[simp] theorem exit_cur (r : Nat) (R : Rt) (res : Res) : (m.exit r R res).cur = R.parent := rfl
theorem exit_rt (r : Nat) (R : Rt) (res : Res) (i : Nat) :
    (m.exit r R res).rt i = if i = r then { R with parent := .nil } else m.rt i := rfl
@[simp] theorem exit_rt_ne (r : Nat) (R : Rt) (res : Res) (i : Nat) (h : i ≠ r) :
    (m.exit r R res).rt i = m.rt i := by simp [exit_rt, h]
@[simp] theorem exit_rt_same (r : Nat) (R : Rt) (res : Res) :
    (m.exit r R res).rt r = { R with parent := .nil } := by simp [exit_rt]

@[simp] theorem exitRc_stack (r : Nat) (R : Rt) (res : Res) : (m.exitRc r R res).stack = m.stack.tail := rfl
@[simp] theorem exitRc_mainSecs (r : Nat) (R : Rt) (res : Res) : (m.exitRc r R res).mainSecs = m.mainSecs := rfl
@[simp] theorem exitRc_conds (r : Nat) (R : Rt) (res : Res) : (m.exitRc r R res).conds = m.conds := rfl
@[simp] theorem exitRc_fvs (r : Nat) (R : Rt) (res : Res) : (m.exitRc r R res).fvs = m.fvs := rfl
@[simp] theorem exitRc_queue (r : Nat) (R : Rt) (res : Res) : (m.exitRc r R res).queue = m.queue := rfl
@[simp] theorem exitRc_ext (r : Nat) (R : Rt) (res : Res) : (m.exitRc r R res).ext = m.ext := rfl
@[simp] theorem exitRc_pending (r : Nat) (R : Rt) (res : Res) : (m.exitRc r R res).pending = some res := rfl
@[simp] theorem exitRc_cur (r : Nat) (R : Rt) (res : Res) : (m.exitRc r R res).cur = R.parent := rfl
@[simp] theorem exitRc_rt (r : Nat) (R : Rt) (res : Res) : (m.exitRc r R res).rt = (m.exit r R res).rt := rfl
@[simp] theorem advance_stack (r : Nat) (R : Rt) (k : Nat) : (m.advance r R k).stack = m.stack := rfl
@[simp] theorem advance_mainSecs (r : Nat) (R : Rt) (k : Nat) : (m.advance r R k).mainSecs = m.mainSecs := rfl
@[simp] theorem advance_conds (r : Nat) (R : Rt) (k : Nat) : (m.advance r R k).conds = m.conds := rfl
@[simp] theorem advance_fvs (r : Nat) (R : Rt) (k : Nat) : (m.advance r R k).fvs = m.fvs := rfl
@[simp] theorem advance_queue (r : Nat) (R : Rt) (k : Nat) : (m.advance r R k).queue = m.queue := rfl
@[simp] theorem advance_ext (r : Nat) (R : Rt) (k : Nat) : (m.advance r R k).ext = m.ext := rfl
@[simp] theorem advance_pending (r : Nat) (R : Rt) (k : Nat) : (m.advance r R k).pending = m.pending := rfl
@[simp] theorem advance_cur (r : Nat) (R : Rt) (k : Nat) : (m.advance r R k).cur = m.cur := rfl
@[simp] theorem advance_rt_ne (r : Nat) (R : Rt) (k i : Nat) (h : i ≠ r) :
    (m.advance r R k).rt i = m.rt i := by simp [M.advance, h]
@[simp] theorem advance_rt_same (r : Nat) (R : Rt) (k : Nat) :
    (m.advance r R k).rt r = { R with pc := some (k + 1) } := by simp [M.advance]

@[simp] theorem yieldVal_stack (r : Nat) (R : Rt) (k : Nat) (v : Val) :
    (m.yieldVal r R k v).stack = m.stack.tail := rfl
@[simp] theorem yieldVal_mainSecs (r : Nat) (R : Rt) (k : Nat) (v : Val) :
    (m.yieldVal r R k v).mainSecs = m.mainSecs := rfl
@[simp] theorem yieldVal_conds (r : Nat) (R : Rt) (k : Nat) (v : Val) :
    (m.yieldVal r R k v).conds = m.conds := rfl
@[simp] theorem yieldVal_fvs (r : Nat) (R : Rt) (k : Nat) (v : Val) :
    (m.yieldVal r R k v).fvs = m.fvs := rfl
@[simp] theorem yieldVal_queue (r : Nat) (R : Rt) (k : Nat) (v : Val) :
    (m.yieldVal r R k v).queue = m.queue := rfl
@[simp] theorem yieldVal_pending (r : Nat) (R : Rt) (k : Nat) (v : Val) :
    (m.yieldVal r R k v).pending = some (.val v) := rfl
@[simp] theorem yieldVal_rt_ne (r : Nat) (R : Rt) (k : Nat) (v : Val) (i : Nat) (h : i ≠ r) :
    (m.yieldVal r R k v).rt i = m.rt i := by simp [M.yieldVal, h]
@[simp] theorem yieldVal_rt_same (r : Nat) (R : Rt) (k : Nat) (v : Val) :
    (m.yieldVal r R k v).rt r =
      { R with pc := some (k + 1), last := v, state := .suspended, parent := .nil } := by
  simp [M.yieldVal]

@[simp] theorem raiseIn_stack (r : Nat) (R : Rt) (e : Exc) : (m.raiseIn r R e).stack = m.stack.tail := by
  unfold M.raiseIn; repeat' split
  all_goals rfl
@[simp] theorem raiseIn_mainSecs (r : Nat) (R : Rt) (e : Exc) : (m.raiseIn r R e).mainSecs = m.mainSecs := by
  unfold M.raiseIn; repeat' split
  all_goals rfl
@[simp] theorem raiseIn_conds (r : Nat) (R : Rt) (e : Exc) : (m.raiseIn r R e).conds = m.conds := by
  unfold M.raiseIn; repeat' split
  all_goals rfl
@[simp] theorem raiseIn_fvs (r : Nat) (R : Rt) (e : Exc) : (m.raiseIn r R e).fvs = m.fvs := by
  unfold M.raiseIn; repeat' split
  all_goals rfl
@[simp] theorem raiseIn_queue (r : Nat) (R : Rt) (e : Exc) : (m.raiseIn r R e).queue = m.queue := by
  unfold M.raiseIn; repeat' split
  all_goals rfl
@[simp] theorem raiseIn_rt_ne (r : Nat) (R : Rt) (e : Exc) (i : Nat) (h : i ≠ r) :
    (m.raiseIn r R e).rt i = m.rt i := by
  unfold M.raiseIn; repeat' split
  all_goals simp [h]
theorem raiseIn_rt_same (r : Nat) (R : Rt) (e : Exc) :
    ((m.raiseIn r R e).rt r).state = .done ∧ ((m.raiseIn r R e).rt r).terminal = R.terminal ∧
    ((m.raiseIn r R e).rt r).parent = .nil := by
  unfold M.raiseIn; repeat' split
  all_goals simp

@[simp] theorem enterLog_rt (r : Nat) (v : Val) : (m.enterLog r v).rt = m.rt := (coreEq_enterLog m r v).rt
@[simp] theorem enterLog_mainSecs (r : Nat) (v : Val) : (m.enterLog r v).mainSecs = m.mainSecs :=
  (coreEq_enterLog m r v).mainSecs
@[simp] theorem enterLog_conds (r : Nat) (v : Val) : (m.enterLog r v).conds = m.conds := by
  unfold M.enterLog; repeat' split
  all_goals rfl
@[simp] theorem enterLog_fvs (r : Nat) (v : Val) : (m.enterLog r v).fvs = m.fvs := by
  unfold M.enterLog; repeat' split
  all_goals rfl
@[simp] theorem enterLog_queue (r : Nat) (v : Val) : (m.enterLog r v).queue = m.queue := by
  unfold M.enterLog; repeat' split
  all_goals rfl

@[simp] theorem enter_stack (r : Nat) (v : Val) : (m.enter r v).stack = r :: m.stack := rfl
@[simp] theorem enter_mainSecs (r : Nat) (v : Val) : (m.enter r v).mainSecs = m.mainSecs := by
  simp [M.enter]
@[simp] theorem enter_conds (r : Nat) (v : Val) : (m.enter r v).conds = m.conds := by simp [M.enter]
@[simp] theorem enter_fvs (r : Nat) (v : Val) : (m.enter r v).fvs = m.fvs := by simp [M.enter]
@[simp] theorem enter_queue (r : Nat) (v : Val) : (m.enter r v).queue = m.queue := by simp [M.enter]
@[simp] theorem enter_rt_ne (r : Nat) (v : Val) (i : Nat) (h : i ≠ r) : (m.enter r v).rt i = m.rt i := by
  simp [M.enter, M.setRt, h]
@[simp] theorem enter_rt_same (r : Nat) (v : Val) :
    (m.enter r v).rt r =
      { m.rt r with
        parent := m.cur, secs := m.secsOf m.cur, state := .running, pc := some (startPc (m.rt r).pc) } := by
  simp [M.enter, M.setRt]

theorem callNext_stack (r : Nat) (v : Val) :
    (m.callNext r v).stack = m.stack ∨ (m.callNext r v).stack = r :: m.stack := by
  unfold M.callNext; split <;> simp
@[simp] theorem callNext_mainSecs (r : Nat) (v : Val) : (m.callNext r v).mainSecs = m.mainSecs := by
  unfold M.callNext; split <;> simp
@[simp] theorem callNext_conds (r : Nat) (v : Val) : (m.callNext r v).conds = m.conds := by
  unfold M.callNext; split <;> simp
@[simp] theorem callNext_fvs (r : Nat) (v : Val) : (m.callNext r v).fvs = m.fvs := by
  unfold M.callNext; split <;> simp
@[simp] theorem callNext_queue (r : Nat) (v : Val) : (m.callNext r v).queue = m.queue := by
  unfold M.callNext; split <;> simp
@[simp] theorem callNext_rt_ne (r : Nat) (v : Val) (i : Nat) (h : i ≠ r) :
    (m.callNext r v).rt i = m.rt i := by
  unfold M.callNext; split <;> simp [h]

@[simp] theorem applyRop_stack (r : Nat) (o : ROp) : (m.applyRop r o).1.stack = m.stack :=
  (applyRop_frame m r o).2.1
@[simp] theorem applyRop_mainSecs (r : Nat) (o : ROp) : (m.applyRop r o).1.mainSecs = m.mainSecs :=
  (applyRop_frame m r o).2.2.1
@[simp] theorem applyRop_conds (r : Nat) (o : ROp) : (m.applyRop r o).1.conds = m.conds :=
  (applyRop_frame m r o).2.2.2.2.2.1
@[simp] theorem applyRop_fvs (r : Nat) (o : ROp) : (m.applyRop r o).1.fvs = m.fvs :=
  (applyRop_frame m r o).2.2.2.2.2.2.1
@[simp] theorem applyRop_pending (r : Nat) (o : ROp) : (m.applyRop r o).1.pending = m.pending :=
  (applyRop_frame m r o).2.2.2.2.1
@[simp] theorem applyRop_rt_ne (r : Nat) (o : ROp) (i : Nat) (h : i ≠ r) :
    (m.applyRop r o).1.rt i = m.rt i := (applyRop_frame m r o).2.2.2.2.2.2.2 i h

@[simp] theorem signal_rt (c : Nat) : (m.signal c).rt = m.rt := (coreEq_signal m c).rt
@[simp] theorem signal_stack (c : Nat) : (m.signal c).stack = m.stack := (coreEq_signal m c).stack
@[simp] theorem signal_mainSecs (c : Nat) : (m.signal c).mainSecs = m.mainSecs := (coreEq_signal m c).mainSecs
@[simp] theorem releaseCond_rt (c : Nat) : (m.releaseCond c).rt = m.rt := (coreEq_releaseCond m c).rt
@[simp] theorem releaseCond_stack (c : Nat) : (m.releaseCond c).stack = m.stack :=
  (coreEq_releaseCond m c).stack
@[simp] theorem releaseCond_mainSecs (c : Nat) : (m.releaseCond c).mainSecs = m.mainSecs :=
  (coreEq_releaseCond m c).mainSecs
@[simp] theorem fvSet_rt (f : Nat) (v : Val) : (m.fvSet f v).1.rt = m.rt := (coreEq_fvSet m f v).rt
@[simp] theorem fvSet_stack (f : Nat) (v : Val) : (m.fvSet f v).1.stack = m.stack := (coreEq_fvSet m f v).stack
@[simp] theorem fvSet_mainSecs (f : Nat) (v : Val) : (m.fvSet f v).1.mainSecs = m.mainSecs :=
  (coreEq_fvSet m f v).mainSecs

end frame

/-- The stack moves by at most one frame per step, and the scheduler's clock does not move. -/
def StackMove (m m' : M) : Prop :=
  m'.mainSecs = m.mainSecs ∧
  (m'.stack = m.stack ∨ (∃ r, m'.stack = r :: m.stack) ∨ m'.stack = m.stack.tail)

theorem stackMove_execAct (m : M) (r : Nat) (R : Rt) (k : Nat) : StackMove m (m.execAct r R k) := by
  unfold M.execAct StackMove
  split
  · split <;> simp
  · rename_i a _
    cases a with
    | nest r' md v =>
      simp only [callNext_mainSecs, true_and]
      rcases callNext_stack m r' v with h | h
      · exact Or.inl h
      · exact Or.inr (Or.inl ⟨r', h⟩)
    | rop r' o => simp
    | wait c => simp only; repeat' split
                all_goals simp
    | waitFv c => simp only; repeat' split
                  all_goals simp
    | fvSet f v => simp only; split <;> simp
    | _ => simp

theorem stackMove_handleReturn (m : M) (r : Nat) (R : Rt) (k : Nat) (res : Res) :
    StackMove m (m.handleReturn r R k res) := by
  unfold M.handleReturn StackMove
  simp only
  repeat' split
  all_goals simp

theorem stackMove_step (m : M) : StackMove m m.step := by
  unfold M.step
  split
  · rename_i hs
    unfold StackMove M.finishTick
    repeat' split
    all_goals simp [hs]
  · simp only
    split
    · exact ⟨rfl, Or.inl rfl⟩
    · split
      · exact stackMove_handleReturn _ _ _ _ _
      · exact stackMove_execAct _ _ _ _

/-! ### What a step can do to routines other than the innermost active one -/

theorem step_rt_of_empty {m : M} (hs : m.stack = []) : m.step.rt = m.rt := by
  unfold M.step M.finishTick
  rw [hs]
  simp only
  repeat' split
  all_goals rfl

theorem handleReturn_rt_ne (m : M) (r : Nat) (R : Rt) (k : Nat) (res : Res) (i : Nat) (h : i ≠ r) :
    (m.handleReturn r R k res).rt i = m.rt i := by
  unfold M.handleReturn
  simp only
  repeat' split
  all_goals simp [h]

theorem execAct_rt_ne (m : M) (r : Nat) (R : Rt) (k : Nat) (i : Nat) (h : i ≠ r) :
    (m.execAct r R k).rt i = m.rt i ∨
    (∃ o, R.script[k]? = some (.rop i o) ∧ (m.execAct r R k).rt i = (m.applyRop i o).1.rt i) ∨
    (∃ md v, R.script[k]? = some (.nest i md v) ∧ m.execAct r R k = m.callNext i v) := by
  unfold M.execAct
  split
  · left; split <;> simp [h]
  · rename_i a ha
    cases a with
    | nest r' md v =>
      simp only
      by_cases h' : i = r'
      · subst h'; right; right; exact ⟨md, v, ha, rfl⟩
      · left; simp [h']
    | rop r' o =>
      simp only
      by_cases h' : i = r'
      · subst h'; right; left; exact ⟨o, ha, by simp [h]⟩
      · left; simp [h, h']
    | wait c => left; simp only; repeat' split
                all_goals simp [h]
    | waitFv c => left; simp only; repeat' split
                  all_goals simp [h]
    | fvSet f v => left; simp only; split <;> simp [h]
    | _ => left; simp [h]

theorem step_rt_other {m : M} {top : Nat} {rest : List Nat} (hs : m.stack = top :: rest)
    (i : Nat) (h : i ≠ top) :
    m.step.rt i = m.rt i ∨
    (∃ k o, m.pending = none ∧ (m.rt top).pc = some k ∧ (m.rt top).script[k]? = some (.rop i o) ∧
        m.step.rt i = (m.applyRop i o).1.rt i) ∨
    (∃ k md v, m.pending = none ∧ (m.rt top).pc = some k ∧
        (m.rt top).script[k]? = some (.nest i md v) ∧ m.step = m.callNext i v) := by
  unfold M.step
  rw [hs]
  simp only
  split
  · left; rfl
  · rename_i k hk
    split
    · left; exact handleReturn_rt_ne _ _ _ _ _ _ h
    · rename_i hp
      rcases execAct_rt_ne m top (m.rt top) k i h with h1 | ⟨o, h1, h2⟩ | ⟨md, v, h1, h2⟩
      · exact Or.inl h1
      · exact Or.inr (Or.inl ⟨k, o, hp, hk, h1, h2⟩)
      · exact Or.inr (Or.inr ⟨k, md, v, hp, hk, h1, h2⟩)

/-- `top` is executing `o` on routine `r` in this very step. -/
def M.opNow (m : M) (r : Nat) (o : ROp) : Prop :=
  ∃ top rest k, m.stack = top :: rest ∧ m.pending = none ∧ (m.rt top).pc = some k ∧
    (m.rt top).script[k]? = some (.rop r o)

/-- The documented table is what `applyRop` implements. -/
theorem applyRop_table (m : M) (r : Nat) (o : ROp) :
    ((m.applyRop r o).2, ((m.applyRop r o).1.rt r).state) = Spec.rop (m.rt r).state o := by
  unfold M.applyRop
  cases o <;> simp only
  all_goals
    cases hst : (m.rt r).state <;> simp [hst, Spec.rop]

theorem applyRop_refused (m : M) (r : Nat) (o : ROp) (h : (m.applyRop r o).2 = true) :
    (m.applyRop r o).1 = m := by
  unfold M.applyRop at h ⊢
  cases o <;> simp only at h ⊢
  all_goals
    repeat' split at h
    all_goals simp_all

theorem applyRop_terminal (m : M) (r : Nat) (o : ROp) (h : o ≠ .reset) :
    ((m.applyRop r o).1.rt r).terminal = (m.rt r).terminal := by
  unfold M.applyRop
  cases o <;> simp only
  all_goals
    repeat' split
    all_goals simp_all

theorem callNext_rt_of_not_runs (m : M) (r : Nat) (v : Val) (h : Spec.entry (m.rt r).state ≠ .runs) :
    (m.callNext r v).rt = m.rt ∧ (m.callNext r v).stack = m.stack := by
  unfold M.callNext
  split
  · exact ⟨rfl, rfl⟩
  · exact ⟨rfl, rfl⟩
  · exact ⟨rfl, rfl⟩
  · rename_i h1 h2 h3
    exfalso; apply h
    cases hst : (m.rt r).state <;> simp_all [Spec.entry]

theorem callNext_of_runs (m : M) (r : Nat) (v : Val) (h : Spec.entry (m.rt r).state = .runs) :
    m.callNext r v = m.enter r v := by
  unfold M.callNext
  split
  all_goals simp_all [Spec.entry]

/-- The innermost active routine either keeps running or leaves (its frame is popped and its
    state is one of Suspended / Done / Init). -/
theorem step_top {m : M} (hi : Inv m) {top : Nat} {rest : List Nat} (hs : m.stack = top :: rest) :
    ((m.step.rt top).state = .running ∧ (m.step.rt top).parent = (m.rt top).parent ∧
        (m.step.rt top).terminal = (m.rt top).terminal) ∨
    ((m.step.rt top).state ∈ Spec.exitStates ∧ m.step.stack = rest) := by
  have hrun : (m.rt top).state = .running := (hi.running top).2 (by simp [hs])
  have hraise : ∀ (m1 : M) (R : Rt) (e : Exc), m1.stack = top :: rest →
      ((m1.raiseIn top R e).rt top).state ∈ Spec.exitStates ∧ (m1.raiseIn top R e).stack = rest := by
    intro m1 R e h1
    refine ⟨?_, by simp [h1]⟩
    rw [(raiseIn_rt_same m1 top R e).1]; simp [Spec.exitStates]
  unfold M.step
  rw [hs]
  simp only
  split
  · left; exact ⟨hrun, rfl, rfl⟩
  · rename_i k hk
    split
    · -- handleReturn
      unfold M.handleReturn
      simp only
      split
      · split
        · left; simp [hrun]
        · split
          · right; exact hraise _ _ _ hs
          · left; simp [hrun]
      · split
        · left; simp [hrun]
        · right; exact hraise _ _ _ hs
      · split
        · right; simp [Spec.exitStates, hs]
        · left; simp [hrun]
        · left; simp [hrun]
        · right; exact hraise _ _ _ hs
      · left; exact ⟨hrun, rfl, rfl⟩
    · unfold M.execAct
      split
      · right; split <;> simp [Spec.exitStates, hs]
      · rename_i a ha
        cases a with
        | yield v => right; simp [Spec.exitStates, hs]
        | raise => right; exact hraise _ _ _ hs
        | raiseB e => right; exact hraise _ _ _ hs
        | raiseStop => right; exact hraise _ _ _ hs
        | yar v => right; simp [Spec.exitStates, hs]
        | ay v => right; simp [Spec.exitStates, hs]
        | nest r' md v =>
          left
          simp only
          by_cases h' : top = r'
          · subst h'
            have := callNext_rt_of_not_runs m top v (by simp [hrun, Spec.entry])
            rw [this.1]; exact ⟨hrun, rfl, rfl⟩
          · simp [h', hrun]
        | rop r' o =>
          left
          simp only [advance_rt_same]
          by_cases h' : top = r'
          · subst h'
            have h1 := applyRop_table m top o
            have h2 : ((m.applyRop top o).1.rt top).state = .running := by
              have := congrArg Prod.snd h1
              simp only at this; rw [this, hrun]; cases o <;> rfl
            have h3 : ((m.applyRop top o).1.rt top) = m.rt top := by
              unfold M.applyRop
              cases o <;> simp [hrun]
            simp [h3, hrun]
          · simp [h', hrun]
        | wait c =>
          simp only
          split
          · right; simp [Spec.exitStates, hs]
          · split
            · right; simp [Spec.exitStates, hs]
            · right; exact hraise _ _ _ hs
        | waitFv c =>
          simp only
          split
          · right; simp [Spec.exitStates, hs]
          · split
            · right; simp [Spec.exitStates, hs]
            · right; exact hraise _ _ _ hs
        | signal c => left; simp [hrun]
        | unhang c => left; simp [hrun]
        | setTest c b => left; simp [hrun]
        | readFv f => left; simp [hrun]
        | fvSet f v => left; simp only; split <;> simp [hrun]
        | here => left; simp [hrun]

/-! ### Scheduler queue, conditions, flow variables -/

theorem insertQ_perm (e : Int × Nat) (q : List (Int × Nat)) : (insertQ e q).Perm (e :: q) := by
  induction q with
  | nil => exact List.Perm.refl _
  | cons x xs ih =>
    unfold insertQ
    split
    · exact List.Perm.refl _
    · exact (List.Perm.cons x ih).trans (List.Perm.swap e x xs)

@[simp] theorem schedAll_conds (m : M) (l : List Nat) : (m.schedAll l).conds = m.conds := by
  induction l generalizing m with
  | nil => rfl
  | cons r rs ih => simp [M.schedAll, ih]

@[simp] theorem schedAll_fvs (m : M) (l : List Nat) : (m.schedAll l).fvs = m.fvs := by
  induction l generalizing m with
  | nil => rfl
  | cons r rs ih => simp [M.schedAll, ih]

/-- The entries of routine `r` in a queue. -/
def entriesOf (r : Nat) (q : List (Int × Nat)) : List (Int × Nat) := q.filter fun x => x.2 == r

theorem enqueue_perm (e : Int × Nat) (q : List (Int × Nat)) :
    (enqueue e q).Perm (e :: q.filter fun x => x.2 != e.2) := insertQ_perm _ _

/-- After `enqueue (t, r)`: routine `r` has exactly the entry `(t, r)`; every other routine
    keeps exactly the entries it had. -/
theorem entriesOf_enqueue_same (t : Int) (r : Nat) (q : List (Int × Nat)) :
    entriesOf r (enqueue (t, r) q) = [(t, r)] := by
  have h := (enqueue_perm (t, r) q).filter (fun x => x.2 == r)
  have h2 : (((t, r) :: q.filter fun x => x.2 != r).filter fun x => x.2 == r) = [(t, r)] := by
    simp only [List.filter_cons, beq_self_eq_true, if_true, List.filter_filter]
    congr 1
    apply List.filter_eq_nil_iff.mpr
    intro x _; simp
  rw [h2] at h
  exact List.perm_singleton.mp h

theorem entriesOf_enqueue_other (t : Int) (r r' : Nat) (hne : r' ≠ r) (q : List (Int × Nat)) :
    (entriesOf r' (enqueue (t, r) q)).Perm (entriesOf r' q) := by
  have h := (enqueue_perm (t, r) q).filter (fun x => x.2 == r')
  refine h.trans ?_
  have hr : ((t, r).2 == r') = false := by simpa using fun h => hne h.symm
  simp only [List.filter_cons, hr, Bool.false_eq_true, if_false, List.filter_filter, entriesOf]
  apply List.Perm.of_eq
  apply List.filter_congr
  intro x _
  by_cases hx : x.2 = r'
  · simp [hx, hne]
  · simp [hx]

theorem sched_secsOf_cur (m : M) (r : Nat) : (m.sched r).secsOf (m.sched r).cur = m.secsOf m.cur := by
  simp only [sched_cur]; cases m.cur <;> rfl

theorem qkey_inj {r r' : Nat} {b b' : Bool} (h : qkey r b = qkey r' b') : r = r' := by
  unfold qkey at h
  cases b <;> cases b' <;> simp at h <;> omega

@[simp] theorem sched_clk (m : M) (r : Nat) : (m.sched r).clk = m.clk := rfl

/-- The scheduler key of routine `r`: the pair (r, its `_clock`). -/
def M.keyOf (m : M) (r : Nat) : Nat := qkey r (m.clk r)

/-- Scheduling a list of routines at the current thread's logical time `t`, each on its own clock: afterwards
    each of them has exactly ONE pending entry on that clock, `(t, key)`, and no other entry changed. -/
theorem schedAll_entries (m : M) (l : List Nat) :
    (∀ r ∈ l, entriesOf (m.keyOf r) (m.schedAll l).queue = [(m.secsOf m.cur, m.keyOf r)]) ∧
    (∀ k, (∀ a ∈ l, k ≠ m.keyOf a) → (entriesOf k (m.schedAll l).queue).Perm (entriesOf k m.queue)) := by
  induction l generalizing m with
  | nil => exact ⟨by simp, fun r _ => List.Perm.refl _⟩
  | cons a rs ih =>
    obtain ⟨ih1, ih2⟩ := ih (m.sched a)
    rw [sched_secsOf_cur] at ih1
    have hk : ∀ r, (m.sched a).keyOf r = m.keyOf r := fun r => rfl
    simp only [M.schedAll]
    constructor
    · intro r hr
      by_cases hrs : r ∈ rs
      · have := ih1 r hrs; rwa [hk] at this
      · have hra : r = a := by simpa [hrs] using hr
        subst hra
        have hne : ∀ b ∈ rs, m.keyOf r ≠ (m.sched r).keyOf b := by
          intro b hb e
          rw [hk] at e
          exact hrs (qkey_inj e ▸ hb)
        have := ih2 (m.keyOf r) hne
        have h3 : entriesOf (m.keyOf r) (m.sched r).queue = [(m.secsOf m.cur, m.keyOf r)] :=
          entriesOf_enqueue_same _ _ _
        rw [h3] at this
        exact List.perm_singleton.mp this
    · intro k hk'
      have h1 : ∀ b ∈ rs, k ≠ (m.sched a).keyOf b := fun b hb => by rw [hk]; exact hk' b (by simp [hb])
      exact (ih2 k h1).trans (entriesOf_enqueue_other _ _ _ (hk' a (by simp)) _)

theorem releaseCond_conds (m : M) (c i : Nat) :
    (m.releaseCond c).conds i = if i = c then { m.conds c with waiting := [] } else m.conds i := by
  simp [M.releaseCond, M.setCond]

@[simp] theorem releaseCond_fvs (m : M) (c : Nat) : (m.releaseCond c).fvs = m.fvs := by
  simp [M.releaseCond]

@[simp] theorem signal_fvs (m : M) (c : Nat) : (m.signal c).fvs = m.fvs := by
  unfold M.signal; split <;> simp

@[simp] theorem fvSet_conds (m : M) (f : Nat) (v : Val) : (m.fvSet f v).1.conds = m.conds := by
  unfold M.fvSet
  cases h : (m.fvs f).value <;> simp [h]

theorem fvSet_value_bound (m : M) (f : Nat) (w : Val) (g : Nat) (v : Val)
    (h : (m.fvs g).value = some v) : ((m.fvSet f w).1.fvs g).value = some v := by
  unfold M.fvSet
  cases hf : (m.fvs f).value with
  | some x => simpa [hf] using h
  | none =>
    simp only [hf, schedAll_fvs]
    by_cases e : g = f
    · subst e; rw [hf] at h; cases h
    · simpa [M.setFv, e] using h

theorem Inv.ext_ne_idle' {m : M} (hi : Inv m) {r : Nat} {rest : List Nat}
    (hs : m.stack = r :: rest) : m.ext ≠ .idle := hi.ext_ne_idle hs

/-- `thread_player` of the running routine is the outermost routine of the call chain. -/
theorem tpAux_eq_last (rt : Nat → Rt) (m : M) (hm : m.rt = rt) :
    ∀ (rest : List Nat) (r : Nat) (fuel : Nat), rest.length ≤ fuel →
      Chain rt (.rt r) (r :: rest) → m.tpAux fuel r = (r :: rest).getLast (by simp) := by
  intro rest
  induction rest with
  | nil =>
    intro r fuel _ hc
    have hp : (rt r).parent = .main := hc.2
    cases fuel with
    | zero => rfl
    | succ n => simp [M.tpAux, hm, hp]
  | cons r2 rest' ih =>
    intro r fuel hf hc
    obtain ⟨_, hc2⟩ := hc
    have hp : (rt r).parent = .rt r2 := hc2.1
    cases fuel with
    | zero => simp at hf
    | succ n =>
      simp only [M.tpAux, hm, hp]
      rw [ih r2 n (by simpa using hf) (by rw [← hp]; exact ⟨hp, hc2.2⟩)]
      simp

theorem Inv.threadPlayer_outermost {m : M} (hi : Inv m) {top : Nat} {rest : List Nat}
    (hs : m.stack = top :: rest) : m.threadPlayer top = (top :: rest).getLast (by simp) := by
  unfold M.threadPlayer
  have hc := hi.chain
  rw [hs] at hc
  apply tpAux_eq_last m.rt m rfl rest top
  · simp [hs]
  · exact ⟨rfl, hc.2⟩

end Sc3Verif.C11

namespace Sc3Verif.C11

/-! ### The call stack is well formed: the model's "unreachable" branches are unreachable -/

/-- Routine `caller` stands at a `nest` action (calling `callee`, if given). -/
def AtNest (m : M) (caller : Nat) (callee : Option Nat) : Prop :=
  ∃ k r' md v, (m.rt caller).pc = some k ∧ (m.rt caller).script[k]? = some (.nest r' md v) ∧
    (callee = none ∨ callee = some r')

/-- Every active frame has a position, and each frame below the top stands at the `nest` action
    that called the frame above it. -/
def Frames (m : M) : List Nat → Prop
  | [] => True
  | [r] => (m.rt r).pc.isSome
  | callee :: caller :: rest => (m.rt callee).pc.isSome ∧ AtNest m caller (some callee) ∧ Frames m (caller :: rest)

structure WFStack (m : M) : Prop where
  frames : Frames m m.stack
  pendingNest : ∀ r rest res, m.stack = r :: rest → m.pending = some res → AtNest m r none

theorem frames_congr {m m' : M} {s : List Nat}
    (h : ∀ r ∈ s, (m'.rt r).pc = (m.rt r).pc ∧ (m'.rt r).script = (m.rt r).script)
    (hf : Frames m s) : Frames m' s := by
  induction s with
  | nil => trivial
  | cons a rest ih =>
    cases rest with
    | nil => simp only [Frames] at hf ⊢; rw [(h a (by simp)).1]; exact hf
    | cons b rest' =>
      obtain ⟨h1, ⟨k, r', md, v, h2, h3, h4⟩, h5⟩ := hf
      refine ⟨by rw [(h a (by simp)).1]; exact h1, ⟨k, r', md, v, ?_, ?_, h4⟩, ?_⟩
      · rw [(h b (by simp)).1]; exact h2
      · rw [(h b (by simp)).2]; exact h3
      · exact ih (fun r hr => h r (by simp [hr])) h5

theorem frames_tail {m : M} {a : Nat} {rest : List Nat} (h : Frames m (a :: rest)) : Frames m rest := by
  cases rest with
  | nil => trivial
  | cons b rest' => exact h.2.2

theorem frames_top_pc {m : M} {a : Nat} {rest : List Nat} (h : Frames m (a :: rest)) :
    (m.rt a).pc.isSome := by
  cases rest with
  | nil => exact h
  | cons b rest' => exact h.1


theorem atNest_congr {m m' : M} {r : Nat} {c : Option Nat}
    (h : (m'.rt r).pc = (m.rt r).pc ∧ (m'.rt r).script = (m.rt r).script) (ha : AtNest m r c) :
    AtNest m' r c := by
  obtain ⟨k, r', md, v, h1, h2, h3⟩ := ha
  exact ⟨k, r', md, v, by rw [h.1]; exact h1, by rw [h.2]; exact h2, h3⟩

theorem atNest_weaken {m : M} {r : Nat} {c : Option Nat} (ha : AtNest m r c) : AtNest m r none := by
  obtain ⟨k, r', md, v, h1, h2, _⟩ := ha
  exact ⟨k, r', md, v, h1, h2, Or.inl rfl⟩

/-- The machine changes only outside the active frames (and possibly drops the pending result). -/
theorem WFStack.of_same {m m' : M} (h : WFStack m) (hs : m'.stack = m.stack)
    (hp : m'.pending = none ∨ m'.pending = m.pending)
    (hr : ∀ r ∈ m.stack, (m'.rt r).pc = (m.rt r).pc ∧ (m'.rt r).script = (m.rt r).script) :
    WFStack m' := by
  refine ⟨by rw [hs]; exact frames_congr hr h.frames, ?_⟩
  intro r rest res hst hpe
  rw [hs] at hst
  rcases hp with hp | hp
  · rw [hp] at hpe; cases hpe
  · rw [hp] at hpe
    exact atNest_congr (hr r (by rw [hst]; simp)) (h.pendingNest r rest res hst hpe)

/-- The top frame moves on inside its script (no result pending afterwards). -/
theorem WFStack.advanceTop {m m' : M} (h : WFStack m) {top : Nat} {rest : List Nat}
    (hst : m.stack = top :: rest) (hnd : top ∉ rest) (hs : m'.stack = m.stack) (hp : m'.pending = none)
    (htop : (m'.rt top).pc.isSome)
    (hr : ∀ r ∈ rest, (m'.rt r).pc = (m.rt r).pc ∧ (m'.rt r).script = (m.rt r).script) : WFStack m' := by
  refine ⟨?_, ?_⟩
  · rw [hs, hst]
    have hf := h.frames
    rw [hst] at hf
    cases rest with
    | nil => exact htop
    | cons b rest' =>
      obtain ⟨_, h2, h3⟩ := hf
      exact ⟨htop, atNest_congr (hr b (by simp)) h2, frames_congr hr h3⟩
  · intro r rest' res _ hpe; rw [hp] at hpe; cases hpe

/-- The top frame is popped and its result travels to the caller. -/
theorem WFStack.pop {m m' : M} (h : WFStack m) {top : Nat} {rest : List Nat}
    (hst : m.stack = top :: rest) (hs : m'.stack = rest)
    (hr : ∀ r ∈ rest, (m'.rt r).pc = (m.rt r).pc ∧ (m'.rt r).script = (m.rt r).script) : WFStack m' := by
  have hf := h.frames
  rw [hst] at hf
  refine ⟨by rw [hs]; exact frames_congr hr (frames_tail hf), ?_⟩
  intro r rest' res hst' _
  rw [hs] at hst'
  subst hst'
  exact atNest_weaken (atNest_congr (hr r (by simp)) hf.2.1)

theorem wf_exit {m : M} (h : WFStack m) {top : Nat} {rest : List Nat}
    (hst : m.stack = top :: rest) (hn : top ∉ rest) (R : Rt) (res : Res) : WFStack (m.exit top R res) := by
  apply h.pop hst (by simp [hst])
  intro r hr
  have : r ≠ top := fun e => hn (e ▸ hr)
  simp [this]

theorem wf_exitRc {m : M} (h : WFStack m) {top : Nat} {rest : List Nat}
    (hst : m.stack = top :: rest) (hn : top ∉ rest) (R : Rt) (res : Res) : WFStack (m.exitRc top R res) :=
  (wf_exit h hst hn R res).of_same rfl (Or.inr rfl) (fun _ _ => ⟨rfl, rfl⟩)

theorem wf_raiseIn {m : M} (h : WFStack m) {top : Nat} {rest : List Nat}
    (hst : m.stack = top :: rest) (hn : top ∉ rest) (R : Rt) (e : Exc) : WFStack (m.raiseIn top R e) := by
  unfold M.raiseIn
  repeat' split
  all_goals first | exact wf_exit h hst hn _ _ | exact wf_exitRc h hst hn _ _

/-- Changes outside routine records, stack and pending keep the stack well formed. -/
theorem WFStack.of_coreEq {m m' : M} (h : WFStack m) (hc : CoreEq m m') : WFStack m' :=
  h.of_same hc.stack (Or.inr hc.pending) (fun r _ => by rw [hc.rt]; exact ⟨rfl, rfl⟩)

theorem wf_setPendingNone {m : M} (h : WFStack m) : WFStack ({ m with pending := none } : M) :=
  h.of_same rfl (Or.inl rfl) (fun _ _ => ⟨rfl, rfl⟩)

theorem wf_advance {m : M} (h : WFStack m) {top : Nat} {rest : List Nat}
    (hst : m.stack = top :: rest) (hn : top ∉ rest) (hp : m.pending = none) (R : Rt) (k : Nat) :
    WFStack (m.advance top R k) := by
  refine h.advanceTop (m' := m.advance top R k) hst hn rfl hp (by simp) ?_
  intro r hr
  have : r ≠ top := fun e => hn (e ▸ hr)
  simp [this]

/-- `callNext` issued by the top frame standing at `nest r' …` (or from outside when nothing is active). -/
theorem wf_callNext {m : M} (hi : Inv m) (h : WFStack m) (_hp : m.pending = none) (r' : Nat) (v : Val)
    (hcaller : ∀ top rest, m.stack = top :: rest → AtNest m top (some r')) : WFStack (m.callNext r' v) := by
  have hpend : ∀ res, WFStack ({ m with pending := some res } : M) := by
    intro res
    refine ⟨frames_congr (m := m) (fun _ _ => ⟨rfl, rfl⟩) h.frames, ?_⟩
    intro r rest _ hst _
    exact atNest_congr (m := m) ⟨rfl, rfl⟩ (atNest_weaken (hcaller r rest hst))
  unfold M.callNext
  split
  · exact hpend _
  · exact hpend _
  · exact hpend _
  · rename_i h1 h2 hrun
    have hns : r' ∉ m.stack := fun hin => hrun ((hi.running r').2 hin)
    have hrt : ∀ r ∈ m.stack, ((m.enter r' v).rt r).pc = (m.rt r).pc ∧
        ((m.enter r' v).rt r).script = (m.rt r).script := by
      intro r hr
      have : r ≠ r' := fun e => hns (e ▸ hr)
      simp [this]
    refine ⟨?_, ?_⟩
    · show Frames (m.enter r' v) (r' :: m.stack)
      cases hst : m.stack with
      | nil => simp [Frames]
      | cons top rest =>
        refine ⟨by simp, atNest_congr (hrt top (by simp [hst])) (hcaller top rest hst), ?_⟩
        rw [← hst]
        exact frames_congr hrt h.frames
    · intro r rest res _ hpe
      simp [M.enter] at hpe


theorem applyRop_running_rt (m : M) (r : Nat) (o : ROp) (h : (m.rt r).state = .running) :
    (m.applyRop r o).1.rt r = m.rt r := by
  unfold M.applyRop
  cases o <;> simp [h]

theorem wf_handleReturn {m : M} (h : WFStack m) {top : Nat} {rest : List Nat}
    (hst : m.stack = top :: rest) (hn : top ∉ rest) (k : Nat) (res : Res) :
    WFStack (m.handleReturn top (m.rt top) k res) := by
  have h0 : WFStack ({ m with pending := none } : M) := wf_setPendingNone h
  have hs0 : ({ m with pending := none } : M).stack = top :: rest := hst
  have hl : ∀ ev, WFStack (({ m with pending := none } : M).addLog ev) :=
    fun ev => h0.of_coreEq (coreEq_addLog _ ev)
  unfold M.handleReturn
  simp only
  split
  · split
    · exact wf_advance (hl _) hs0 hn rfl _ _
    · split
      · exact wf_raiseIn h0 hs0 hn _ _
      · exact wf_advance (hl _) hs0 hn rfl _ _
  · split
    · exact wf_advance (hl _) hs0 hn rfl _ _
    · exact wf_raiseIn h0 hs0 hn _ _
  · split
    · exact wf_exit h0 hs0 hn _ _
    · exact wf_advance (hl _) hs0 hn rfl _ _
    · exact wf_advance (hl _) hs0 hn rfl _ _
    · exact wf_raiseIn h0 hs0 hn _ _
  · exact h0

theorem wf_execAct {m : M} (hi : Inv m) (h : WFStack m) {top : Nat} {rest : List Nat}
    (hst : m.stack = top :: rest) (hp : m.pending = none) (k : Nat) (hk : (m.rt top).pc = some k) :
    WFStack (m.execAct top (m.rt top) k) := by
  have hnd := hi.nodup; rw [hst] at hnd
  have hn : top ∉ rest := (List.nodup_cons.mp hnd).1
  have hcore : ∀ m' : M, CoreEq m m' → ∀ R, WFStack (m'.advance top R k) := by
    intro m' hc R
    exact wf_advance (h.of_coreEq hc) (by rw [hc.stack]; exact hst) hn (by rw [hc.pending]; exact hp) R k
  unfold M.execAct
  split
  · split
    · exact wf_exitRc h hst hn _ _
    · exact wf_exit h hst hn _ _
  · rename_i a ha
    cases a with
    | yield v => exact wf_exit h hst hn _ _
    | raise => exact wf_raiseIn h hst hn _ _
    | raiseB e => exact wf_raiseIn h hst hn _ _
    | raiseStop => exact wf_raiseIn h hst hn _ _
    | yar v => exact wf_exit h hst hn _ _
    | ay v => exact wf_exit h hst hn _ _
    | nest r' md v =>
      apply wf_callNext hi h hp
      intro t rs hs'
      rw [hst] at hs'
      obtain ⟨rfl, _⟩ := List.cons.inj hs'
      exact ⟨k, r', md, v, hk, ha, Or.inr rfl⟩
    | rop r' o =>
      simp only
      have h1 : WFStack (m.applyRop r' o).1 := by
        apply h.of_same (by simp) (Or.inr (by simp))
        intro r hr
        by_cases hrr : r = r'
        · subst hrr
          rw [applyRop_running_rt m r o ((hi.running r).2 hr)]; exact ⟨rfl, rfl⟩
        · rw [applyRop_rt_ne _ _ _ _ hrr]; exact ⟨rfl, rfl⟩
      have h2 := h1.of_coreEq (coreEq_addLog _ (.op top r' o (m.applyRop r' o).2))
      exact wf_advance h2 (by simpa using hst) hn (by simpa using hp) _ _
    | wait c =>
      simp only
      split
      · exact wf_exit h hst hn _ _
      · split
        · exact wf_exit (h.of_coreEq (coreEq_setCond m c _)) (by simpa using hst) hn _ _
        · exact wf_raiseIn h hst hn _ _
    | waitFv f =>
      simp only
      split
      · exact wf_exit h hst hn _ _
      · split
        · exact wf_exit (h.of_coreEq (coreEq_setFv m f _)) (by simpa using hst) hn _ _
        · exact wf_raiseIn h hst hn _ _
    | signal c => exact hcore _ (coreEq_signal m c) _
    | unhang c => exact hcore _ (coreEq_releaseCond m c) _
    | setTest c b => exact hcore _ (coreEq_setCond m c _) _
    | readFv f => exact hcore _ (coreEq_addLog m _) _
    | fvSet f v =>
      simp only
      split
      · exact hcore _ ((coreEq_fvSet m f v).trans (coreEq_addLog _ _)) _
      · exact hcore _ (coreEq_fvSet m f v) _
    | here => exact hcore _ (coreEq_addLog m _) _

theorem wf_step {m : M} (hi : Inv m) (h : WFStack m) : WFStack m.step := by
  unfold M.step
  split
  · rename_i hs
    have hnil : ∀ m' : M, m'.stack = [] → WFStack m' := by
      intro m' hs'
      exact ⟨by rw [hs']; trivial, fun r rest _ hst _ => by rw [hs'] at hst; cases hst⟩
    unfold M.finishTick
    repeat' split
    all_goals exact hnil _ (by simpa using hs)
  · rename_i top rest hst
    have hnd := hi.nodup; rw [hst] at hnd
    have hn : top ∉ rest := (List.nodup_cons.mp hnd).1
    simp only
    split
    · exact h
    · rename_i k hk
      split
      · exact wf_handleReturn h hst hn k _
      · rename_i hp
        exact wf_execAct hi h hst hp k hk

theorem wf_inject {m : M} (hi : Inv m) (hidle : m.idle = true) (x : XOp) : WFStack (m.inject x) := by
  obtain ⟨hs, hp, _⟩ := hi.idle_shape hidle
  have hnil : ∀ m' : M, m'.stack = [] → WFStack m' := by
    intro m' hs'
    exact ⟨by rw [hs']; trivial, fun r rest _ hst _ => by rw [hs'] at hst; cases hst⟩
  have hcall : ∀ (m0 : M), Inv m0 → m0.stack = [] → m0.pending = none → ∀ r v, WFStack (m0.callNext r v) := by
    intro m0 hi0 hs0 hp0 r v
    apply wf_callNext hi0 (hnil m0 hs0) hp0
    intro t rs hst; rw [hs0] at hst; cases hst
  unfold M.inject
  simp only
  cases x with
  | next r v =>
    simp only
    refine hcall _ ?_ (by exact hs) (by exact hp) r v
    exact ⟨hi.nodup, hi.running, hi.chain, hi.parentNil, hi.secs, fun h => by simp at h⟩
  | tick =>
    simp only
    split
    · exact hnil _ hs
    · refine hcall _ ?_ (by exact hs) (by exact hp) _ _
      refine ⟨hi.nodup, hi.running, hi.chain, hi.parentNil, ?_, fun h => by simp at h⟩
      intro r hr; simp [hs] at hr
  | rop r o => simp only; exact hnil _ (by simp [hs])
  | signal c => simp only; exact hnil _ (by simp [hs])
  | unhang c => simp only; exact hnil _ (by simp [hs])
  | setTest c b => simp only; exact hnil _ (by simp [hs])
  | fvSet f v => simp only; exact hnil _ (by simp [hs])

end Sc3Verif.C11
