/-
C10 — Real-time and non-real-time modes run the same program identically.

Property theorems only.  The model is C05's (one shared state, two interpreters).
-/
import Sc3Verif.C10.Lemmas
import Sc3Verif.C10.Spec
import Sc3Verif.C05.Props
namespace Sc3Verif.C10
open Sc3Verif.C05

theorem runNrt_succ (s : S) (n : Nat) : s.stepNrt.runNrt n = s.runNrt (n + 1) := rfl

/-- One ordered move: if it wakes a task the logical state makes one `main.process()` iteration,
    otherwise it does not change. -/
theorem step_ordered (r : RtS) (m : Move) (hm : Move.ordered r m) :
    (r.step m).s = if Move.fires r m then r.s.stepNrt else r.s := by
  cases m with
  | advance d => simp only [RtS.step, Move.fires]; split <;> rfl
  | run c =>
    rcases hc : r.s.chooseRt c with _ | e
    · simp [RtS.step, Move.fires, hc]
    · by_cases hdue : r.s.secsOf e ≤ r.now
      · simp [RtS.step, Move.fires, hc, hdue, S.stepNrt, hm e hc hdue]
      · simp [RtS.step, Move.fires, hc, hdue]

/-- MAIN (`rt_nrt_same_trace`).  For EVERY program (all actions: yields, spawns on any clocks,
    tempo changes, pause / resume / stop, wait / signal, seeds, draws, sends), every logical
    state, every physical time and every environment schedule whose clock threads are served
    in due order — however late each wake-up is, with any number of early or spurious looks at
    the queues — the real-time run and `main.process()` go through the same logical states: after
    the schedule has woken `k` tasks the two states, traces included, are equal. -/
theorem rt_nrt_same_trace (r : RtS) (ms : List Move) (h : Sched.ordered r ms) : Spec.sameAfter r ms := by
  unfold Spec.sameAfter
  induction ms generalizing r with
  | nil => rfl
  | cons m ms ih =>
    obtain ⟨hm, hrest⟩ := h
    have hstep := step_ordered r m hm
    simp only [RtS.run, Sched.fired]
    rw [ih (r.step m) hrest, hstep]
    split
    · rw [Nat.add_comm, ← runNrt_succ]
    · rw [Nat.zero_add]

/-- The same, for the events only. -/
theorem rt_nrt_same_events (r : RtS) (ms : List Move) (h : Sched.ordered r ms) :
    (r.run ms).s.trace = (r.s.runNrt (Sched.fired r ms)).trace := by
  rw [rt_nrt_same_trace r ms h]

/-- When every pending task lives on one clock with a sane tempo, EVERY move is ordered:
    the thread of that clock picks what `main.process()` picks, threads of other clocks find
    nothing. -/
theorem single_clock_move_ordered {r : RtS} {c : Clk} (hwf : r.s.WF) (hc : OnClock c r.s) (m : Move) :
    Move.ordered r m := by
  cases m with
  | advance d => trivial
  | run c' =>
    intro e he _
    by_cases hcc : c' = c
    · subst hcc; rw [← chooseRt_eq_chooseNrt hwf hc]; exact he
    · rw [chooseRt_other hc hcc] at he; cases he

/-- `rt_nrt_same_trace` for single-clock runs, with NO assumption on the schedule: if along the
    run every pending task is on clock `c` (and tempi stay positive, which `exec` guarantees —
    `exec_wf`), real time equals non-real time for every `Sched`. -/
theorem rt_nrt_same_trace_single_clock (c : Clk) (r : RtS) (ms : List Move)
    (hinv : ∀ k, k ≤ ms.length → OnClock c (r.run (ms.take k)).s ∧ (r.run (ms.take k)).s.WF) :
    Spec.sameAfter r ms := by
  apply rt_nrt_same_trace
  induction ms generalizing r with
  | nil => trivial
  | cons m ms ih =>
    have h0 := hinv 0 (by simp)
    refine ⟨single_clock_move_ordered h0.2 h0.1 m, ih (r.step m) ?_⟩
    intro k hk
    have := hinv (k + 1) (by simp; omega)
    simpa [RtS.run] using this

theorem step_sysOnly {r : RtS} (h : SysOnly r.s) (m : Move) : SysOnly (r.step m).s := by
  cases m with
  | advance d => simp only [RtS.step]; split <;> exact h
  | run c =>
    simp only [RtS.step]
    cases hc : r.s.chooseRt c with
    | none => exact h
    | some e =>
      simp only
      split
      · exact exec_sysOnly h (List.mem_filter.mp (argmin_mem hc)).1
      · exact h

theorem step_wf {r : RtS} (h : r.s.WF) (m : Move) : (r.step m).s.WF := by
  cases m with
  | advance d => simp only [RtS.step]; split <;> exact h
  | run c =>
    simp only [RtS.step]
    cases hc : r.s.chooseRt c with
    | none => exact h
    | some e => simp only; split
                · exact exec_wf h e
                · exact h

/-- Programs that only ever use SystemClock (root and every spawn on it): real time equals
    non-real time for EVERY environment schedule — arbitrary lateness, several tasks becoming
    ready at once, spurious wake-ups — and every mix of pause / resume / stop / wait / signal. -/
theorem rt_nrt_same_trace_system_clock (prog : Nat → List Act) (tempi : Nat → Rat) (start now : Rat)
    (hpos : ∀ i, 0 < tempi i) (hsys : ∀ r, ∀ a ∈ prog r, Act.sysOnly a = true) (ms : List Move) :
    Spec.sameAfter ⟨S.init prog tempi start .sys, now⟩ ms := by
  have h0 : SysOnly (S.init prog tempi start .sys) := by
    unfold S.init
    simp only [S.schedNow]
    apply SysOnly.add
    refine ⟨by intro e he; simp at he, ?_, ?_⟩
    · intro r; simp only [S.setRt]; split <;> rfl
    · intro r a ha
      simp only [S.setRt] at ha
      split at ha <;> exact hsys _ a (by simpa using ha)
  have hw0 := Sc3Verif.C05.init_wf prog tempi start .sys hpos
  apply rt_nrt_same_trace_single_clock .sys
  intro k _
  generalize (ms.take k) = l
  suffices ∀ (r : RtS), SysOnly r.s → r.s.WF → SysOnly (r.run l).s ∧ (r.run l).s.WF from
    let ⟨a, b⟩ := this _ h0 hw0; ⟨a.pend, b⟩
  intro r h1 h2
  induction l generalizing r with
  | nil => exact ⟨h1, h2⟩
  | cons m l ih => exact ih (r.step m) (step_sysOnly h1 m) (step_wf h2 m)

/-! ### Why the order hypothesis is needed for several clocks -/

/-- r0 (SystemClock) stops r1 at 1 s; r1 (a TempoClock) logs at 0, 1/2, 1, 3/2 s. -/
def raceProg : Nat → List Act
  | 0 => [.spawn 1 (.tempo 0), .yield 1, .stop 1]
  | 1 => [.log, .yield (1/2), .log, .yield (1/2), .log, .yield (1/2), .log]
  | _ => []

/-- With the SystemClock thread one second late the TempoClock thread gets ahead: r1 logs at
    1 s and 3/2 s before it is stopped, which `main.process()` never shows.  (Inherent to
    several real threads; not a defect.) -/
theorem multi_clock_needs_ordered_schedule :
    let s0 := S.init raceProg (fun _ => 1) 0 .sys
    let late : List Move := [.run .sys, .run (.tempo 0), .advance 2, .run (.tempo 0), .run (.tempo 0),
                             .run (.tempo 0), .run .sys]
    ((RtS.mk s0 0).run late).s.trace ≠ (s0.runNrt (Sched.fired ⟨s0, 0⟩ late)).trace ∧
    ¬ Sched.ordered ⟨s0, 0⟩ late := by
  have h1 : ((RtS.mk (S.init raceProg (fun _ => 1) 0 .sys) 0).run
        [.run .sys, .run (.tempo 0), .advance 2, .run (.tempo 0), .run (.tempo 0),
         .run (.tempo 0), .run .sys]).s.trace ≠
      ((S.init raceProg (fun _ => 1) 0 .sys).runNrt (Sched.fired ⟨S.init raceProg (fun _ => 1) 0 .sys, 0⟩
        [.run .sys, .run (.tempo 0), .advance 2, .run (.tempo 0), .run (.tempo 0),
         .run (.tempo 0), .run .sys])).trace := by decide +kernel
  exact ⟨h1, fun ho => h1 (rt_nrt_same_events _ _ ho)⟩

/-! ### D12 regression: pause + resume before the stale wake-up -/

/-- r0: play r1, wait 3/2, pause r1, wait 1/4, resume r1, wait 8;  r1 logs every second. -/
def d12Prog : Nat → List Act
  | 0 => [.spawn 1 .sys, .yield (3/2), .pause 1, .yield (1/4), .resume 1, .yield 8]
  | 1 => [.log, .yield 1, .log, .yield 1, .log, .yield 1, .log]
  | _ => []

/-- One timeline after the resume (7/4, 11/4 s), in both modes: the stale wake-up of 2 s was
    replaced when r1 was rescheduled. -/
example :
    ((S.init d12Prog (fun _ => 1) 0 .sys).runNrt 20).trace.filterMap
      (fun e => match e with | .log 1 _ t => some t | _ => none) = [11/4, 7/4, 1, 0] := by
  decide +kernel

/-! ### Random generators -/

/-- Reachable from `s₀` by any interleaving of NRT iterations and RT environment moves. -/
theorem reach_drawInv {s₀ s : S} (h0 : DrawInv s₀) (hn0 : ∀ r, NoRestore (s₀.rts r).script)
    (h : Reach s₀ s) : DrawInv s ∧ ∀ r, NoRestore (s.rts r).script := by
  induction h with
  | refl => exact ⟨h0, hn0⟩
  | nrt _ ih =>
    unfold S.stepNrt; split
    · exact ih
    · exact ⟨exec_drawInv ih.1 _ (ih.2 _), fun r => by rw [exec_script]; exact ih.2 r⟩
  | rt now m _ ih =>
    cases m with
    | advance d => simp only [RtS.step]; split <;> exact ih
    | run c =>
      simp only [RtS.step]
      split
      · exact ih
      · split
        · exact ⟨exec_drawInv ih.1 _ (ih.2 _), fun r => by rw [exec_script]; exact ih.2 r⟩
        · exact ih

/-- `rgen_isolation`, part 1.  In every run of every program that does not assign a `rand_state` (which
    rewinds a generator on purpose), in either mode and under every schedule, each random generator object is
    read at indices 0, 1, 2, … in this order: what a generator hands out is the prefix of ITS OWN stream,
    whoever draws from other generators in between and however the routines interleave. -/
theorem rgen_isolation (prog : Nat → List Act) (tempi : Nat → Rat) (start : Rat) (c0 : Clk)
    (hnr : ∀ r, NoRestore (prog r)) {s : S}
    (h : Reach (S.init prog tempi start c0) s) (g : Nat) :
    drawIdxs g s.trace = List.range (s.draws g) := by
  refine (reach_drawInv ?_ ?_ h).1 g
  · intro g'
    simp [S.init, S.schedNow, S.add, S.setRt, drawIdxs]
  · intro r
    have : ((S.init prog tempi start c0).rts r).script = prog r := by
      simp only [S.init, S.schedNow, S.add, S.setRt]
      repeat' split
      all_goals simp_all
    rw [this]; exact hnr r

/-- `rand_state` read by ANY routine `x` (from inside or from outside): what is saved is (stream, position) of
    routine r's OWN generator object — the reader's generator does not appear. -/
theorem rand_state_reads_own_generator (s : S) (x : Ctx) (k r : Nat) (rest : List Act)
    (hc : ((s.bumpPc x.rid).rts r).created = true) :
    runActs s x (.save k r :: rest) =
      runActs { (s.bumpPc x.rid) with
                saved := fun j => if j = k then
                    some ((s.bumpPc x.rid).genSeed ((s.bumpPc x.rid).rts r).gen,
                          (s.bumpPc x.rid).draws ((s.bumpPc x.rid).rts r).gen)
                  else (s.bumpPc x.rid).saved j } x rest := by
  rw [runActs]
  simp [hc]

/-- Assigning a saved `rand_state` to routine r makes r's generator object continue at the saved stream and
    position: the draws that followed the save are handed out again. -/
theorem rand_state_restore_rewinds (s : S) (x : Ctx) (k r : Nat) (rest : List Act) (sd : Option Nat) (pos : Nat)
    (hs : (s.bumpPc x.rid).saved k = some (sd, pos)) (hc : ((s.bumpPc x.rid).rts r).created = true) :
    runActs s x (.restore k r :: rest) =
      runActs { (s.bumpPc x.rid) with
                genSeed := fun j => if j = ((s.bumpPc x.rid).rts r).gen then sd else (s.bumpPc x.rid).genSeed j
                draws := fun j => if j = ((s.bumpPc x.rid).rts r).gen then pos else (s.bumpPc x.rid).draws j }
        x rest := by
  rw [runActs]
  simp [hs, hc]

/-- `rgen_isolation`, part 2: which generator a routine reads.  A routine created inside another
    routine's body gets the creator's generator AS IT IS AT THAT MOMENT; seeding gives the routine
    a generator of its own; a draw consumes one value of the drawer's generator only. -/
theorem rgen_inherited_at_creation (s : S) (by_ r : Nat) (h : (s.rts r).created = false) :
    ((s.create by_ r).rts r).gen = (s.rts by_).gen ∧ ((s.create by_ r).rts r).created = true ∧
    ∀ i, i ≠ r → (s.create by_ r).rts i = s.rts i := by
  unfold S.create
  simp only [h, Bool.false_eq_true, if_false]
  exact ⟨by simp, by simp, fun i hi => by simp [hi]⟩

theorem rgen_creation_is_once (s : S) (by_ r : Nat) (h : (s.rts r).created = true) :
    s.create by_ r = s := by
  unfold S.create; simp [h]

/-- `deterministic_given_seeds`: the non-real-time run is a function of the program, the tempi,
    the start and the root clock — two runs go through equal states (random draws are positions
    in seeded streams, `rgen_isolation`), hence produce equal scores. -/
theorem deterministic_given_seeds (prog : Nat → List Act) (tempi : Nat → Rat) (start : Rat) (c0 : Clk)
    (n : Nat) (s1 s2 : S) (h1 : s1 = (S.init prog tempi start c0).runNrt n)
    (h2 : s2 = (S.init prog tempi start c0).runNrt n) : s1.trace = s2.trace := by
  rw [h1, h2]

end Sc3Verif.C10
