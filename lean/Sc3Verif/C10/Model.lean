/-
C10 — real-time vs non-real-time on the shared time model of `Sc3Verif.C05.Model`.

Nothing new is executed here: `RtS.step` / `S.stepNrt` are the two interpreters of C05's model.
This file only names the notions the C10 theorems need:

* `Move.fires`   — the move wakes a task;
* `Move.ordered` — IF it wakes a task, it is the task `main.process()` would run next
                   (the clock threads are served in due order; how late is irrelevant);
* `OnClock c`    — every pending task belongs to clock `c` (single-clock programs);
* `drawIdxs g`   — the indices at which generator `g` was read, oldest first.
Core Lean only.
-/
import Sc3Verif.C05.Model
namespace Sc3Verif.C10
open Sc3Verif.C05

/-- Does this environment move wake a task? -/
def Move.fires (r : RtS) : Move → Bool
  | .advance _ => false
  | .run c =>
    match r.s.chooseRt c with
    | none => false
    | some e => decide (r.s.secsOf e ≤ r.now)

/-- If the move wakes a task, it is the one the NRT scheduler would pick in the same state. -/
def Move.ordered (r : RtS) : Move → Prop
  | .advance _ => True
  | .run c => ∀ e, r.s.chooseRt c = some e → r.s.secsOf e ≤ r.now → r.s.chooseNrt = some e

/-- Every move of the schedule is ordered in the state it is applied to. -/
def Sched.ordered : RtS → List Move → Prop
  | _, [] => True
  | r, m :: ms => Move.ordered r m ∧ Sched.ordered (r.step m) ms

/-- Number of tasks the schedule wakes. -/
def Sched.fired : RtS → List Move → Nat
  | _, [] => 0
  | r, m :: ms => (if Move.fires r m then 1 else 0) + Sched.fired (r.step m) ms

/-- All pending tasks are on clock `c`. -/
def OnClock (c : Clk) (s : S) : Prop := ∀ e ∈ s.pend, e.clk = c

/-- Indices of the draws made on generator `g`, in chronological order. -/
def drawIdxs (g : Nat) (trace : List Ev) : List Nat :=
  trace.reverse.filterMap fun e =>
    match e with
    | .draw _ g' _ i => if g' = g then some i else none
    | _ => none

end Sc3Verif.C10
