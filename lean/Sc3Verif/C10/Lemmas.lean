/-
C10 — helper lemmas: the two choosers agree on a single clock; bodies keep tempi sane; programs
that only use SystemClock keep everything on SystemClock; draw bookkeeping.
-/
import Sc3Verif.C10.Model
import Sc3Verif.C05.Lemmas
namespace Sc3Verif.C10
open Sc3Verif.C05

/-! ### The two choosers on one clock -/

theorem argmin_congr {b1 b2 : Entry → Entry → Bool} {l : List Entry}
    (h : ∀ x ∈ l, ∀ y ∈ l, b1 x y = b2 x y) : argmin b1 l = argmin b2 l := by
  induction l with
  | nil => rfl
  | cons e es ih =>
    have ih' := ih (fun x hx y hy => h x (by simp [hx]) y (by simp [hy]))
    unfold argmin
    rw [ih']
    cases hm : argmin b2 es with
    | none => rfl
    | some m =>
      have hm' : m ∈ es := argmin_mem hm
      simp only
      rw [h m (by simp [hm']) e (by simp)]

/-- On one clock with a sane tempo, "earlier in seconds" and "earlier in beats" coincide. -/
theorem nrtBetter_eq_before {s : S} (hwf : s.WF) {a b : Entry} (hc : a.clk = b.clk) :
    s.nrtBetter a b = a.before b := by
  have hp := hwf.params a.clk
  have h1 : s.secsOf a < s.secsOf b ↔ a.beats < b.beats := by
    unfold S.secsOf; rw [← hc]; exact Tempo.b2s_lt_iff hp
  have h2 : s.secsOf a = s.secsOf b ↔ a.beats = b.beats := by
    unfold S.secsOf; rw [← hc]; exact Tempo.b2s_eq_iff hp
  unfold S.nrtBetter Entry.before
  by_cases hlt : a.beats < b.beats
  · simp [h1.mpr hlt, hlt]
  · have hn1 : ¬ s.secsOf a < s.secsOf b := fun h => hlt (h1.mp h)
    by_cases heq : a.beats = b.beats
    · have h3 : (s.secsOf a == s.secsOf b) = true := by simpa using h2.mpr heq
      have h4 : (a.beats == b.beats) = true := by simpa using heq
      simp [hn1, hlt, h3, h4]
    · have hn2 : ¬ s.secsOf a = s.secsOf b := fun h => heq (h2.mp h)
      have h3 : (s.secsOf a == s.secsOf b) = false := by simpa using hn2
      have h4 : (a.beats == b.beats) = false := by simpa using heq
      simp [hn1, hlt, h3, h4]

/-- With every pending task on clock `c`, that clock's thread and `main.process()` pick the
    same task. -/
theorem chooseRt_eq_chooseNrt {s : S} (hwf : s.WF) {c : Clk} (hc : OnClock c s) :
    s.chooseRt c = s.chooseNrt := by
  unfold S.chooseRt S.chooseNrt
  have hf : s.pend.filter (fun e => e.clk == c) = s.pend := by
    apply List.filter_eq_self.mpr
    intro e he; simp [hc e he]
  rw [hf]
  apply argmin_congr
  intro x hx y hy
  exact (nrtBetter_eq_before hwf (by rw [hc x hx, hc y hy])).symm

/-- A thread of another clock finds nothing. -/
theorem chooseRt_other {s : S} {c c' : Clk} (hc : OnClock c s) (hne : c' ≠ c) : s.chooseRt c' = none := by
  unfold S.chooseRt
  have : s.pend.filter (fun e => e.clk == c') = [] := by
    apply List.filter_eq_nil_iff.mpr
    intro e he
    simp only [beq_iff_eq]
    rw [hc e he]; exact fun h => hne h.symm
  rw [this]; rfl

/-! ### Tempi stay sane through any body -/

theorem wf_setTempo {s : S} (h : s.WF) (i : Nat) (t v : Rat) (hv : 0 < v) :
    ({ s with tempi := fun j => if j = i then (s.tempi i).setTempo t v else s.tempi j } : S).WF := by
  intro j
  simp only
  split
  · exact Tempo.setTempo_wf _ _ hv
  · exact h j

theorem schedAll_tempi (s : S) (l : List Nat) : (s.schedAll l).tempi = s.tempi := by
  induction l generalizing s with
  | nil => rfl
  | cons r rs ih => simp only [S.schedAll, S.schedNow]; rw [ih]; rfl

theorem play_tempi (s : S) (b r : Nat) (c : Clk) : (s.play b r c).tempi = s.tempi := by
  unfold S.play S.playNow S.create
  repeat' split
  all_goals rfl

theorem runActs_wf (acts : List Act) (x : Ctx) {s : S} (h : s.WF) : (runActs s x acts).WF := by
  induction acts generalizing s with
  | nil => exact h
  | cons a rest ih =>
    have hb : (s.bumpPc x.rid).WF := h
    unfold runActs
    simp only
    cases a with
    | yield d => exact hb
    | hang => exact hb
    | log => exact ih (s := (s.bumpPc x.rid).emit _) hb
    | send b => exact ih (s := (s.bumpPc x.rid).emit _) hb
    | spawn r c =>
      apply ih
      intro i; rw [play_tempi]; exact hb i
    | setTempo i v =>
      simp only; split
      · rename_i hv
        apply ih
        exact wf_setTempo hb i _ v hv
      · exact ih (s := (s.bumpPc x.rid).emit _) hb
    | setBeats i b =>
      apply ih
      intro j
      show (if j = i then ((s.bumpPc x.rid).tempi i).setBeats _ b else (s.bumpPc x.rid).tempi j).WF
      split
      · exact ⟨(hb i).pos, div_mul_cancel₀ 1 (ne_of_gt (hb i).pos)⟩
      · exact hb j
    | pause r =>
      simp only
      repeat' split
      all_goals exact ih hb
    | resume r =>
      simp only; split
      · exact ih (s := ((s.bumpPc x.rid).setRt _ _).schedNow _ _) hb
      · exact ih hb
    | stop r =>
      simp only
      repeat' split
      all_goals exact ih hb
    | wait c => simp only; split <;> exact hb
    | signal c =>
      simp only
      apply ih
      intro i; rw [schedAll_tempi]; exact hb i
    | seed n => exact ih (s := ((s.bumpPc x.rid).newGen n).setRt _ _) hb
    | raise => exact hb
    | defer r c d => exact ih (s := ((s.bumpPc x.rid).setRt _ _).add _ _ _) hb
    | save k r =>
      simp only
      repeat' split
      all_goals exact ih hb
    | restore k r =>
      simp only
      repeat' split
      all_goals exact ih hb
    | draw => exact ih (s := { (s.bumpPc x.rid).emit _ with draws := _ }) hb
    | pull r =>
      apply ih
      intro i; rw [(pull_frame (s.bumpPc x.rid) x.rid r).1]; exact hb i

theorem exec_wf {s : S} (h : s.WF) (e : Entry) : (s.exec e).WF := by
  unfold S.exec
  simp only
  split
  · exact runActs_wf _ _ (s := S.emit _ _) h
  · exact h

/-! ### Programs that only use SystemClock keep everything on SystemClock -/

def Act.sysOnly : Act → Bool
  | .spawn _ c => c == .sys
  | .defer _ c _ => c == .sys
  | _ => true

structure SysOnly (s : S) : Prop where
  pend : OnClock .sys s
  clock : ∀ r, (s.rts r).clock = .sys
  script : ∀ r, ∀ a ∈ (s.rts r).script, Act.sysOnly a = true

theorem SysOnly.of_same {s s' : S} (h : SysOnly s) (hp : s'.pend = s.pend)
    (hr : ∀ r, (s'.rts r).clock = (s.rts r).clock ∧ (s'.rts r).script = (s.rts r).script) : SysOnly s' := by
  refine ⟨?_, ?_, ?_⟩
  · intro e he; rw [hp] at he; exact h.pend e he
  · intro r; rw [(hr r).1]; exact h.clock r
  · intro r a ha; rw [(hr r).2] at ha; exact h.script r a ha

theorem SysOnly.setRt {s : S} (h : SysOnly s) (r : Nat) (R : Rt) (h1 : R.clock = .sys)
    (h2 : R.script = (s.rts r).script) : SysOnly (s.setRt r R) := by
  refine ⟨h.pend, ?_, ?_⟩
  · intro i; by_cases hi : i = r
    · subst hi; rw [setRt_rts_same]; exact h1
    · rw [setRt_rts_ne _ _ _ _ hi]; exact h.clock i
  · intro i a ha; by_cases hi : i = r
    · subst hi; rw [setRt_rts_same, h2] at ha; exact h.script i a ha
    · rw [setRt_rts_ne _ _ _ _ hi] at ha; exact h.script i a ha

theorem SysOnly.add {s : S} (h : SysOnly s) (b : Rat) (r : Nat) : SysOnly (s.add .sys b r) := by
  refine ⟨?_, ?_, ?_⟩
  · intro e he
    rcases mem_add he with ⟨h1, _⟩ | h1
    · exact h.pend e h1
    · rw [h1]
  · intro i; by_cases hi : i = r
    · subst hi; rw [add_rts_same]
    · rw [add_rts_ne _ _ _ _ _ hi]; exact h.clock i
  · intro i a ha; rw [add_script] at ha; exact h.script i a ha

theorem SysOnly.schedAll {s : S} (h : SysOnly s) (l : List Nat) : SysOnly (s.schedAll l) := by
  induction l generalizing s with
  | nil => exact h
  | cons r rs ih =>
    simp only [S.schedAll, S.schedNow]
    apply ih
    rw [h.clock r]; exact h.add _ _

theorem SysOnly.create {s : S} (h : SysOnly s) (b r : Nat) : SysOnly (s.create b r) := by
  unfold S.create; split
  · exact h
  · refine h.setRt r _ ?_ ?_ <;> simp [h.clock r]

theorem SysOnly.playNow {s : S} (h : SysOnly s) (r : Nat) : SysOnly (s.playNow r .sys) := by
  unfold S.playNow; split
  · simp only [S.schedNow]
    refine SysOnly.add (SysOnly.setRt h r _ ?_ ?_) _ _ <;> simp [h.clock r]
  · exact h

theorem runSub_sysOnly (acts : List Act) (r : Nat) {s : S} (h : SysOnly s) : SysOnly (runSub s r acts) := by
  induction acts generalizing s with
  | nil => unfold runSub; exact h.setRt _ _ rfl rfl
  | cons a rest ih =>
    have hb : SysOnly (s.bumpPc r) := h.setRt r _ (h.clock r) rfl
    unfold runSub
    simp only
    cases a with
    | yield d => exact hb
    | seed n =>
      apply ih
      have hg : SysOnly ((s.bumpPc r).newGen n) := hb.of_same rfl (fun _ => ⟨rfl, rfl⟩)
      refine hg.setRt r _ ?_ ?_ <;> first | rfl | simp [hb.clock r]
    | draw => exact ih (hb.of_same rfl (fun _ => ⟨rfl, rfl⟩))
    | _ => exact ih hb

theorem SysOnly.pull {s : S} (h : SysOnly s) (b r : Nat) : SysOnly (s.pull b r) := by
  unfold S.pull
  split
  · exact h
  · simp only
    split
    · apply runSub_sysOnly
      refine (h.create b r).setRt r _ ?_ ?_ <;> simp [(h.create b r).clock r]
    · exact h.create b r

theorem runActs_sysOnly (acts : List Act) (x : Ctx) (hx : x.clk = .sys) {s : S} (h : SysOnly s)
    (hacts : ∀ a ∈ acts, Act.sysOnly a = true) : SysOnly (runActs s x acts) := by
  induction acts generalizing s with
  | nil => unfold runActs; exact h.setRt _ _ rfl rfl
  | cons a rest ih =>
    have ih' := fun {s : S} (h : SysOnly s) => ih h (fun a ha => hacts a (by simp [ha]))
    have hb : SysOnly (s.bumpPc x.rid) := h.setRt x.rid _ (h.clock x.rid) rfl
    unfold runActs
    simp only
    cases a with
    | yield d => simp only; rw [hx]; exact hb.add _ _
    | hang => exact hb
    | log => exact ih' (hb.of_same rfl (fun _ => ⟨rfl, rfl⟩))
    | send b => exact ih' (hb.of_same rfl (fun _ => ⟨rfl, rfl⟩))
    | spawn r c =>
      have hc : c = .sys := by have := hacts (.spawn r c) (by simp); simpa [Act.sysOnly] using this
      subst hc
      apply ih'
      unfold S.play
      exact (hb.create _ _).playNow _
    | setTempo i v =>
      simp only; split
      · apply ih'
        refine ⟨?_, hb.clock, hb.script⟩
        intro e he
        obtain ⟨e0, h0, h1, _, _⟩ := mem_retime he
        rw [h1]; exact hb.pend e0 h0
      · exact ih' (hb.of_same rfl (fun _ => ⟨rfl, rfl⟩))
    | setBeats i b =>
      apply ih'
      refine ⟨?_, hb.clock, hb.script⟩
      intro e he
      obtain ⟨e0, h0, h1, _, _⟩ := mem_retime he
      rw [h1]; exact hb.pend e0 h0
    | pause r =>
      simp only
      repeat' split
      all_goals first | exact ih' hb | exact ih' (hb.of_same rfl (fun _ => ⟨rfl, rfl⟩))
                      | (apply ih'; refine hb.setRt r _ ?_ ?_ <;> simp [hb.clock r])
    | resume r =>
      simp only; split
      · apply ih'
        simp only [S.schedNow]
        rw [hb.clock r]
        refine SysOnly.add (SysOnly.setRt hb r _ ?_ ?_) _ _ <;> simp
      · exact ih' hb
    | stop r =>
      simp only
      repeat' split
      all_goals first | exact ih' hb | exact ih' (hb.of_same rfl (fun _ => ⟨rfl, rfl⟩))
                      | (apply ih'; refine hb.setRt r _ ?_ ?_ <;> simp)
    | wait c =>
      simp only; split
      · rw [hx]; exact hb.add _ _
      · exact hb.of_same rfl (fun _ => ⟨rfl, rfl⟩)
    | signal c =>
      simp only
      apply ih'
      refine SysOnly.schedAll ?_ _
      exact hb.of_same rfl (fun _ => ⟨rfl, rfl⟩)
    | seed n =>
      apply ih'
      have hg : SysOnly ((s.bumpPc x.rid).newGen n) := hb.of_same rfl (fun _ => ⟨rfl, rfl⟩)
      refine hg.setRt x.rid _ ?_ ?_ <;> first | rfl | simp [hb.clock x.rid]
    | raise => refine hb.setRt x.rid _ ?_ ?_ <;> simp [hb.clock x.rid]
    | save k r =>
      simp only
      repeat' split
      all_goals first | exact ih' hb | exact ih' (hb.of_same rfl (fun _ => ⟨rfl, rfl⟩))
    | restore k r =>
      simp only
      repeat' split
      all_goals first | exact ih' hb | exact ih' (hb.of_same rfl (fun _ => ⟨rfl, rfl⟩))
    | defer r c d =>
      have hc : c = .sys := by have := hacts (.defer r c d) (by simp); simpa [Act.sysOnly] using this
      subst hc
      simp only
      apply ih'
      refine SysOnly.add (SysOnly.setRt hb r _ ?_ ?_) _ _ <;> simp [hb.clock r]
    | draw => exact ih' (hb.of_same rfl (fun _ => ⟨rfl, rfl⟩))
    | pull r => exact ih' (hb.pull _ _)

theorem exec_sysOnly {s : S} (h : SysOnly s) {e : Entry} (he : e ∈ s.pend) : SysOnly (s.exec e) := by
  have h1 : SysOnly { s with pend := s.pend.filter (fun e' => !(e' == e)), mainSecs := s.secsOf e } :=
    ⟨fun e' he' => h.pend e' (List.mem_filter.mp he').1, h.clock, h.script⟩
  unfold S.exec
  simp only
  split
  · refine runActs_sysOnly _ { rid := e.rid, clk := e.clk, beats := e.beats } (h.pend e he)
      (s := S.emit _ _) (h1.of_same rfl (fun _ => ⟨rfl, rfl⟩)) ?_
    intro a ha
    exact h.script e.rid a (List.mem_of_mem_drop ha)
  · exact h1

/-! ### Draw bookkeeping -/

theorem drawIdxs_cons (g : Nat) (ev : Ev) (tr : List Ev) :
    drawIdxs g (ev :: tr) = drawIdxs g tr ++
      (match ev with
       | .draw _ g' _ i => if g' = g then [i] else []
       | _ => []) := by
  unfold drawIdxs
  simp only [List.reverse_cons, List.filterMap_append, List.filterMap_cons, List.filterMap_nil]
  cases ev with
  | draw r g' sd i =>
    simp only
    by_cases h : g' = g
    · simp [h]
    · simp [h]
  | _ => rfl

/-- Every generator has been read at indices 0, 1, 2, … in this order, and `draws g` counts them. -/
def DrawInv (s : S) : Prop := ∀ g, drawIdxs g s.trace = List.range (s.draws g)

theorem DrawInv.of_same {s s' : S} (h : DrawInv s) (ht : s'.trace = s.trace) (hd : s'.draws = s.draws) :
    DrawInv s' := by intro g; rw [ht, hd]; exact h g

theorem DrawInv.emit {s : S} (h : DrawInv s) (ev : Ev) (hev : ∀ r g sd i, ev ≠ .draw r g sd i) :
    DrawInv (s.emit ev) := by
  intro g
  show drawIdxs g (ev :: s.trace) = _
  rw [drawIdxs_cons]
  cases ev with
  | draw r g' sd i => exact absurd rfl (hev r g' sd i)
  | _ => simp; exact h g

theorem schedAll_draws (s : S) (l : List Nat) : (s.schedAll l).draws = s.draws := by
  induction l generalizing s with
  | nil => rfl
  | cons r rs ih => simp only [S.schedAll, S.schedNow]; rw [ih]; rfl

theorem play_draws (s : S) (b r : Nat) (c : Clk) : (s.play b r c).draws = s.draws := by
  unfold S.play S.playNow S.create
  repeat' split
  all_goals rfl

theorem runSub_drawInv (acts : List Act) (r : Nat) {s : S} (h : DrawInv s) : DrawInv (runSub s r acts) := by
  induction acts generalizing s with
  | nil => exact h.of_same rfl rfl
  | cons a rest ih =>
    have hb : DrawInv (s.bumpPc r) := h.of_same rfl rfl
    unfold runSub
    simp only
    cases a with
    | yield d => exact hb
    | seed n => exact ih (hb.of_same (s' := ((s.bumpPc r).newGen n).setRt _ _) rfl rfl)
    | draw =>
      simp only
      apply ih
      intro g
      show drawIdxs g (Ev.draw r _ _ _ :: (s.bumpPc r).trace) = _
      rw [drawIdxs_cons]
      simp only
      by_cases hg : ((s.bumpPc r).rts r).gen = g
      · subst hg
        simp only [if_true]
        rw [hb, List.range_succ]
      · have hg' : g ≠ ((s.bumpPc r).rts r).gen := fun e => hg e.symm
        simp only [hg, hg', if_false, List.append_nil]
        exact hb g
    | _ => exact ih hb

theorem pull_drawInv {s : S} (h : DrawInv s) (b r : Nat) : DrawInv (s.pull b r) := by
  have hc : DrawInv (s.create b r) := by unfold S.create; split <;> exact h.of_same rfl rfl
  unfold S.pull
  split
  · exact h
  · simp only
    split
    · exact runSub_drawInv _ _ (hc.of_same rfl rfl)
    · exact hc

/-- No action assigns a `rand_state` (which rewinds a generator on purpose). -/
def NoRestore (acts : List Act) : Prop := ∀ k r, Act.restore k r ∉ acts

theorem runActs_drawInv (acts : List Act) (x : Ctx) (hnr : NoRestore acts) {s : S} (h : DrawInv s) :
    DrawInv (runActs s x acts) := by
  induction acts generalizing s with
  | nil => exact h.of_same rfl rfl
  | cons a rest ih =>
    have ih := fun {s : S} (h : DrawInv s) => ih (fun k r hm => hnr k r (by simp [hm])) h
    have hb : DrawInv (s.bumpPc x.rid) := h.of_same rfl rfl
    unfold runActs
    simp only
    cases a with
    | yield d => exact hb.of_same rfl rfl
    | hang => exact hb
    | log => exact ih (hb.emit _ (by intros; simp))
    | send b => exact ih (hb.emit _ (by intros; simp))
    | spawn r c => exact ih (hb.of_same (play_trace _ _ _ _) (play_draws _ _ _ _))
    | setTempo i v =>
      simp only; split
      · exact ih (hb.of_same rfl rfl)
      · exact ih (hb.emit _ (by intros; simp))
    | setBeats i b => exact ih (hb.of_same rfl rfl)
    | pause r =>
      simp only
      repeat' split
      all_goals first | exact ih hb | exact ih (hb.emit _ (by intros; simp))
    | resume r =>
      simp only; split
      · exact ih (hb.of_same rfl rfl)
      · exact ih hb
    | stop r =>
      simp only
      repeat' split
      all_goals first | exact ih hb | exact ih (hb.emit _ (by intros; simp))
    | wait c => simp only; split <;> exact hb.of_same rfl rfl
    | signal c =>
      simp only
      exact ih (hb.of_same (schedAll_trace _ _) (schedAll_draws _ _))
    | seed n => exact ih (hb.of_same (s' := ((s.bumpPc x.rid).newGen n).setRt _ _) rfl rfl)
    | raise => exact hb.of_same rfl rfl
    | defer r c d => exact ih (hb.of_same (s' := ((s.bumpPc x.rid).setRt _ _).add _ _ _) rfl rfl)
    | save k r =>
      simp only
      repeat' split
      all_goals exact ih hb
    | restore k r => exact absurd (by simp) (hnr k r)
    | pull r => exact ih (pull_drawInv hb _ _)
    | draw =>
      simp only
      apply ih
      intro g
      show drawIdxs g (Ev.draw x.rid _ _ _ :: (s.bumpPc x.rid).trace) = _
      rw [drawIdxs_cons]
      simp only
      by_cases hg : ((s.bumpPc x.rid).rts x.rid).gen = g
      · subst hg
        simp only [if_true]
        rw [hb, List.range_succ]
      · have hg' : g ≠ ((s.bumpPc x.rid).rts x.rid).gen := fun e => hg e.symm
        simp only [hg, hg', if_false, List.append_nil]
        exact hb g

theorem exec_drawInv {s : S} (h : DrawInv s) (e : Entry) (hnr : NoRestore (s.rts e.rid).script) :
    DrawInv (s.exec e) := by
  unfold S.exec
  simp only
  split
  · apply runActs_drawInv _ _ (fun k r hm => hnr k r (List.mem_of_mem_drop hm))
    exact DrawInv.emit (s := { s with pend := _, mainSecs := _ }) (h.of_same rfl rfl) _ (by intros; simp)
  · exact h.of_same rfl rfl

end Sc3Verif.C10
