/-
C10 — what "the same program runs identically in both modes" means.

Both modes start from the same logical state (`S.init`; the harness compares times relative to
the start).  The real-time run is driven by an arbitrary finite environment schedule (`List
Move`); the non-real-time run is `main.process()`.  "Identical" = after the schedule has woken
`k` tasks the whole logical state of the real-time run (routine states, positions, pending
tasks, tempi, conditions, draw counters, and the trace of resume / log / send / draw events with
their logical times) EQUALS the state of the non-real-time run after `k` iterations.
-/
import Sc3Verif.C10.Model
namespace Sc3Verif.C10.Spec
open Sc3Verif.C05

def sameAfter (r : RtS) (ms : List Move) : Prop :=
  (r.run ms).s = r.s.runNrt (Sched.fired r ms)

end Sc3Verif.C10.Spec
