/-
C19 — executable model of `sc3/synth/envelope.py` (class `Env`), single-channel envelopes.

GENERATED (GenEnv.lean / GenEnvReal.lean): the shape table `_SHAPE_NAMES`, the shape formulas
`segValue` and the segment position `segPos` of `Env._env_at`.
Hand-written here, tied to the code by correspondence: `Env.__init__` (defaults, `times` wrapped
to the segment count), `_shape_number`, `_curve_value`, `_envgen_format` (the EnvGen array), the
segment walk of `_env_at` (generic in the number type, so the same text runs over `Rat` in the
driver and over `ℝ` in the proofs), `_at`, and the constructors `step cutoff pairs xyc` (the straight-line
constructors `triangle sine perc linen dadsr adsr asr` are GENERATED: GenCtors.lean).
Not modelled: multichannel (list-valued) levels/times, UGen-valued entries, `cyclic`/`circle`,
`range/exprange/curverange`, the IEnvGen format.  Core Lean only.
-/
import Sc3Verif.C19.GenEnv
import Sc3Verif.C19.GenCtors
namespace Sc3Verif.C19
open Sc3Verif.C19.Gen
open Sc3Verif.C15.Lift (wrapExtend)

/-- `Env._shape_number(item)`: 5 for a number, the table entry for a name, else ValueError -/
def shapeNumber : Curve → Except String Int
  | .num _ => .ok 5
  | .name s =>
    match shapeNames.lookup s with
    | some n => .ok n
    | none => .error "ValueError"

/-- `Env._curve_value(item)` -/
def curveValue : Curve → Rat
  | .num c => c
  | .name _ => 0

/-- one segment of the EnvGen array: target level, duration, shape number, curvature -/
structure Seg (α : Type) where
  level : α
  dur : α
  shape : Int
  curve : α
deriving Repr

/-- the `i`-th segment: `levels[i + 1]`, `times[i]`, curve `curves[i % len(curves)]` -/
def Env.seg? (e : Env) (i : Nat) : Except String (Seg Rat) :=
  match e.levels[i + 1]?, e.times[i]? with
  | some l, some t =>
    if e.curves.length = 0 then .error "ZeroDivisionError"
    else match e.curves[i % e.curves.length]? with
      | some c => do
        let sh ← shapeNumber c
        pure { level := l, dur := t, shape := sh, curve := curveValue c }
      | none => .error "IndexError"
  | _, _ => .error "IndexError"

def Env.segs (e : Env) : Except String (List (Seg Rat)) :=
  (List.range e.times.length).mapM e.seg?

/-- `-99` when a node is absent -/
def nodeOr99 : Option Int → Int
  | some n => n
  | none => -99

/-- `Env._envgen_format()` (single channel): initial level, segment count, release node, loop
    node, then (level, time, shape, curve) per segment. -/
def Env.format (e : Env) : Except String (List Rat) := do
  match e.levels with
  | [] => .error "IndexError"
  | l0 :: _ =>
    let sgs ← e.segs
    pure ([l0, (e.times.length : Rat), ((nodeOr99 e.releaseNode : Int) : Rat), ((nodeOr99 e.loopNode : Int) : Rat)]
      ++ sgs.flatMap fun s => [s.level, s.dur, ((s.shape : Int) : Rat), s.curve])

/-- The segment walk of `Env._env_at`, for any number type: `start` = level at the start of the next
    segment, `t0` = its start time (`begin_time` = `end_time` of the previous one). -/
def walk {α : Type} [Add α] [LT α] [DecidableLT α]
    (segValue : α → Int → α → α → α → Except String α) (segPos : α → α → α → Except String α)
    (time : α) : α → α → List (Seg α) → Except String α
  | start, _, [] => .ok start
  | start, t0, sg :: rest =>
    if time < t0 + sg.dur then do
      let pos ← segPos time t0 sg.dur
      segValue sg.curve sg.shape pos start sg.level
    else walk segValue segPos time sg.level (t0 + sg.dur) rest

/-- `Env._at(time)`: `max(0, time - offset)`, at least one segment required. -/
def Env.at (e : Env) (time : Rat) : Except String Rat := do
  let sgs ← e.segs
  match e.levels, sgs with
  | l0 :: _, _ :: _ =>
    let t := if time - e.offset < 0 then 0 else time - e.offset       -- max(0, …)
    walk segValue segPos t l0 0 sgs
  | _, _ => .error "ValueError"

/-! ### constructors -/

/-- `Env.step(levels, times, release_level, loop_level, offset)`: the first level is repeated; the
    release node is the index before the release level (absent when none is given). -/
def Env.step (levels times : List Rat) (rel loop : Option Int) (offset : Rat) : Except String Env :=
  let lv := if levels.isEmpty then [0, 1] else levels
  let tm := if times.isEmpty then [1, 1] else times
  if lv.length ≠ tm.length then .error "ValueError"
  else
    match lv with
    | [] => .error "IndexError"
    | l0 :: _ => .ok (Env.new (l0 :: lv) tm [.name "step"] (rel.map (· - 1)) loop offset)

/-- `Env.cutoff(release_time, level, curve)`: falls to 0, or to -100 dB for the exponential shape -/
def Env.cutoff (release level : Rat) (curve : Curve) : Except String Env := do
  let sh ← shapeNumber curve
  let last : Rat := if sh = 2 then 1 / 100000 else 0
  pure (Env.new [level, last] [release] [curve] (some 0) none 0)

/-- stable insertion sort by time (`list.sort(key=lambda x: x[0])`) -/
def insertByTime (p : Rat × Rat × Curve) : List (Rat × Rat × Curve) → List (Rat × Rat × Curve)
  | [] => [p]
  | q :: qs => if p.1 < q.1 then p :: q :: qs else q :: insertByTime p qs

def sortByTime (l : List (Rat × Rat × Curve)) : List (Rat × Rat × Curve) :=
  l.foldl (fun acc p => insertByTime p acc) []

/-- consecutive differences (`[b - a for a, b in pairwise(times)]`) -/
def diffs : List Rat → List Rat
  | a :: b :: rest => (b - a) :: diffs (b :: rest)
  | _ => []

/-- `Env.xyc([[time, level, curve], …])`: sorted by time; times are differences, the first time is
    the offset, the last curve is dropped. -/
def Env.xyc (pts : List (Rat × Rat × Curve)) : Except String Env :=
  let s := sortByTime pts
  match s with
  | [] => .error "IndexError"
  | p0 :: _ =>
    .ok (Env.new (s.map (·.2.1)) (diffs (s.map (·.1))) ((s.map (·.2.2)).dropLast) none none p0.1)

/-- the `curves` argument of `Env.pairs`: absent (→ 'lin'), one for all, or one per point -/
inductive PairCurves where
  | absent
  | one (c : Curve)
  | many (cs : List Curve)

/-- `Env.pairs([[time, level], …], curves)` -/
def Env.pairs (pts : List (Rat × Rat)) (curves : PairCurves) : Except String Env :=
  match curves with
  | .absent => Env.xyc (pts.map fun p => (p.1, p.2, Curve.name "lin"))
  | .one c => Env.xyc (pts.map fun p => (p.1, p.2, c))
  | .many cs =>
    if pts.length ≠ cs.length then .error "ValueError"
    else Env.xyc (List.zipWith (fun p c => (p.1, p.2, c)) pts cs)

end Sc3Verif.C19
