/-
C19 — Envelopes encode to the server format and evaluate consistently.

Property theorems only.  `Gen.shapeNames`, `Gen.segValue/segPos` (Rat, executable) and `GenR.segValue/
segPos` (ℝ) are GENERATED from `sc3/synth/envelope.py` (`Env._SHAPE_NAMES`, the shape chain of
`Env._env_at`); `Env`, `Env.format`, `walk`, the constructors are the hand model of Base.lean / Model.lean, tied to
the real class by the correspondence engine; the straight-line constructors `GenC.*` are GENERATED too.  `walkR` is `walk` over ℝ with the generated formulas.
-/
import Sc3Verif.C19.Lemmas
import Sc3Verif.C15.LemmasLift
namespace Sc3Verif.C19
open Sc3Verif.C15.Lift (wrapExtend wrapExtend_length wrapExtend_getElem?)

/-! ## shape names -/

/-- The generated table `_SHAPE_NAMES` maps every documented shape name to the server's shape
    number, and contains no other name (complete finite tables, checked by evaluation). -/
theorem shape_numbers_match_server :
    (Spec.serverShapes.all fun p => Gen.shapeNames.lookup p.1 == some p.2) = true ∧
    (Gen.shapeNames.all fun p => Spec.serverShapes.lookup p.1 == some p.2) = true := by decide

/-- a curvature number is sent as shape 5 with the number as curvature; a name as its table entry
    with curvature 0; an unknown name is rejected -/
theorem shape_number_cases (c : Curve) :
    (∀ x, c = .num x → shapeNumber c = .ok Spec.curveShape ∧ curveValue c = x) ∧
    (∀ s, c = .name s → curveValue c = 0 ∧
      (shapeNumber c = match Gen.shapeNames.lookup s with | some n => .ok n | none => .error "ValueError")) := by
  constructor
  · rintro x rfl; exact ⟨rfl, rfl⟩
  · rintro s rfl; refine ⟨rfl, ?_⟩
    simp only [shapeNumber]; cases Gen.shapeNames.lookup s <;> rfl

/-! ## the EnvGen array -/

theorem mapM_ok {α β : Type} (f : α → Except String β) (xs : List α) (l : List β)
    (h : xs.mapM f = .ok l) : l.length = xs.length ∧ ∀ i (h1 : i < xs.length) (h2 : i < l.length), f xs[i] = .ok l[i] := by
  induction xs generalizing l with
  | nil => simp [List.mapM_nil, pure, Except.pure] at h; subst h; simp
  | cons a as ih =>
    rw [List.mapM_cons] at h
    cases ha : f a with
    | error e => rw [ha] at h; cases h
    | ok b =>
      rw [ha] at h
      cases has : as.mapM f with
      | error e => rw [has] at h; cases h
      | ok bs =>
        rw [has] at h
        simp only [bind, Except.bind, pure, Except.pure, Except.ok.injEq] at h
        subst h
        obtain ⟨hl, hi⟩ := ih bs has
        refine ⟨by simp [hl], ?_⟩
        intro i h1 h2
        cases i with
        | zero => simpa using ha
        | succ j => simpa using hi j (by simpa using h1) (by simpa using h2)

/-- `format_layout`: the array is the initial level, the segment count, the release and loop node
    (−99 when absent), then target level, duration, shape number and curvature of every segment in
    order; 4 + 4·n numbers in all, and segment `i` is `Env.seg? i`. -/
theorem format_layout (e : Env) (L : List ℚ) (h : e.format = .ok L) :
    ∃ (l0 : ℚ) (sgs : List (Seg ℚ)), e.levels.head? = some l0 ∧ e.segs = .ok sgs ∧
      sgs.length = e.times.length ∧
      (∀ i (h1 : i < e.times.length) (h2 : i < sgs.length), e.seg? i = .ok sgs[i]) ∧
      L = [l0, (e.times.length : ℚ), ((nodeOr99 e.releaseNode : ℤ) : ℚ), ((nodeOr99 e.loopNode : ℤ) : ℚ)]
            ++ sgs.flatMap (fun s => [s.level, s.dur, ((s.shape : ℤ) : ℚ), s.curve]) ∧
      L.length = 4 + 4 * e.times.length := by
  unfold Env.format at h
  cases hl : e.levels with
  | nil => rw [hl] at h; cases h
  | cons l0 rest =>
    rw [hl] at h
    cases hs : e.segs with
    | error err => simp only [hs, bind, Except.bind] at h; cases h
    | ok sgs =>
      simp only [hs, bind, Except.bind, pure, Except.pure, Except.ok.injEq] at h
      have hm := mapM_ok e.seg? (List.range e.times.length) sgs (by simpa [Env.segs] using hs)
      have hlen : sgs.length = e.times.length := by simpa using hm.1
      refine ⟨l0, sgs, by simp, rfl, hlen, ?_, h.symm, ?_⟩
      · intro i h1 h2
        have := hm.2 i (by simpa using h1) h2
        simpa using this
      · rw [← h]
        have : ∀ l : List (Seg ℚ), (l.flatMap fun s => [s.level, s.dur, ((s.shape : ℤ) : ℚ), s.curve]).length = 4 * l.length := by
          intro l; induction l with
          | nil => simp
          | cons a l ih => simp only [List.flatMap_cons, List.length_append, ih, List.length_cons]; simp; omega
        simp [this, hlen]; omega

/-- `times_curves_wrapped`: the durations are the given ones wrapped around to one per segment
    (`len(levels) − 1`), and segment `i` takes curve `i mod len(curves)`. -/
theorem times_curves_wrapped (levels times : List ℚ) (curves : List Curve) (rel loop : Option ℤ) (off : ℚ)
    (hl : levels ≠ []) (ht : times ≠ []) :
    let e := Env.new levels times curves rel loop off
    e.levels = levels ∧ e.times.length = levels.length - 1 ∧
    (∀ i, i < levels.length - 1 → e.times[i]? = times[i % times.length]?) ∧
    (∀ i sg, e.seg? i = .ok sg → ∃ c, curves[i % curves.length]? = some c ∧
        shapeNumber c = .ok sg.shape ∧ sg.curve = curveValue c ∧ e.levels[i + 1]? = some sg.level ∧
        e.times[i]? = some sg.dur) := by
  intro e
  have hl' : levels.isEmpty = false := by cases levels <;> simp_all
  have ht' : times.isEmpty = false := by cases times <;> simp_all
  have hpos : 0 < times.length := by cases times <;> simp_all
  have he : e =
      { levels := levels, times := wrapExtend times (levels.length - 1), curves := curves,
        releaseNode := rel, loopNode := loop, offset := off } := by
    simp only [e, Env.new, hl', ht']; rfl
  refine ⟨by rw [he], by rw [he]; exact wrapExtend_length _ _ hpos, ?_, ?_⟩
  · intro i hi; rw [he]; exact wrapExtend_getElem? _ _ _ hpos hi
  · intro i sg hsg
    unfold Env.seg? at hsg
    cases h1 : e.levels[i + 1]? with
    | none => simp [h1] at hsg
    | some l =>
      cases h2 : e.times[i]? with
      | none => simp [h1, h2] at hsg
      | some t =>
        simp only [h1, h2] at hsg
        have hcur : e.curves = curves := by rw [he]
        rw [hcur] at hsg
        by_cases hc : curves.length = 0
        · rw [if_pos hc] at hsg; cases hsg
        · rw [if_neg hc] at hsg
          cases h3 : curves[i % curves.length]? with
          | none => simp [h3] at hsg
          | some c =>
            simp only [h3] at hsg
            cases h4 : shapeNumber c with
            | error err => simp [h4, bind, Except.bind] at hsg
            | ok sh =>
              simp only [h4, bind, Except.bind, pure, Except.pure, Except.ok.injEq] at hsg
              subst hsg
              exact ⟨c, rfl, h4, rfl, rfl, rfl⟩

/-! ## constructors produce their documented breakpoints -/

theorem ctor_breakpoints_triangle (dur level : ℚ) :
    GenC.triangle dur level =
        { levels := [0, level, 0], times := [dur * (1 / 2), dur * (1 / 2)],
          curves := [.name "lin"], releaseNode := none, loopNode := none, offset := 0 } := by
  simp [GenC.triangle, Env.new, wrapExtend]

theorem ctor_breakpoints_sine (dur level : ℚ) :
    GenC.sine dur level =
        { levels := [0, level, 0], times := [dur * (1 / 2), dur * (1 / 2)],
          curves := [.name "sine"], releaseNode := none, loopNode := none, offset := 0 } := by
  simp [GenC.sine, Env.new, wrapExtend]

theorem ctor_breakpoints_perc (a r level : ℚ) (c : Curve) :
    GenC.perc a r level c =
        { levels := [0, level, 0], times := [a, r], curves := [c],
          releaseNode := none, loopNode := none, offset := 0 } := by
  simp [GenC.perc, Env.new, wrapExtend]

theorem ctor_breakpoints_linen (a s r level : ℚ) (c : Curve) :
    GenC.linen a s r level c =
        { levels := [0, level, level, 0], times := [a, s, r], curves := [c],
          releaseNode := none, loopNode := none, offset := 0 } := by
  simp [GenC.linen, Env.new, wrapExtend]

theorem ctor_breakpoints_asr (a s r : ℚ) (c : Curve) :
    GenC.asr a s r c =
        { levels := [0, s, 0], times := [a, r], curves := [c],
          releaseNode := some 1, loopNode := none, offset := 0 } := by
  simp [GenC.asr, Env.new, wrapExtend]

theorem ctor_breakpoints_adsr (a d s r p b : ℚ) (c : Curve) :
    GenC.adsr a d s r p c b =
        { levels := [0 + b, p + b, p * s + b, 0 + b], times := [a, d, r], curves := [c],
          releaseNode := some 2, loopNode := none, offset := 0 } := by
  simp [GenC.adsr, Env.new, wrapExtend]

theorem ctor_breakpoints_dadsr (dl a d s r p b : ℚ) (c : Curve) :
    GenC.dadsr dl a d s r p c b =
        { levels := [0 + b, 0 + b, p + b, p * s + b, 0 + b], times := [dl, a, d, r],
          curves := [c], releaseNode := some 3, loopNode := none, offset := 0 } := by
  simp [GenC.dadsr, Env.new, wrapExtend]

/-- `cutoff`: sustains at `level` (release node 0) and falls to 0 — to −100 dB = 10⁻⁵ for the
    exponential shape, which cannot reach 0. -/
theorem ctor_breakpoints_cutoff (r level : ℚ) (c : Curve) (sh : ℤ) (h : shapeNumber c = .ok sh) :
    Env.cutoff r level c = .ok
        { levels := [level, if sh = 2 then 1 / 100000 else 0], times := [r], curves := [c],
          releaseNode := some 0, loopNode := none, offset := 0 } := by
  simp only [Env.cutoff, h, bind, Except.bind, pure, Except.pure]
  simp [Env.new, wrapExtend]

/-- `step`: n levels and n durations give n horizontal segments — the first level is repeated, every
    segment has shape `step`, the release node is the index before the release level. -/
theorem ctor_breakpoints_step (l0 : ℚ) (ls ts : List ℚ) (rel loop : Option ℤ) (off : ℚ)
    (h : (l0 :: ls).length = ts.length) :
    Env.step (l0 :: ls) ts rel loop off = .ok
        { levels := l0 :: l0 :: ls, times := ts, curves := [.name "step"],
          releaseNode := rel.map (· - 1), loopNode := loop, offset := off } := by
  have hts : ts ≠ [] := by intro h0; rw [h0] at h; simp at h
  have hte : ts.isEmpty = false := by cases ts <;> simp_all
  have hpos : 0 < ts.length := by cases ts <;> simp_all
  simp only [Env.step, List.isEmpty_cons, hte, Bool.false_eq_true, if_false, h, ne_eq, not_true_eq_false]
  simp only [Env.new, List.isEmpty_cons, hte, Bool.false_eq_true, if_false, List.length_cons]
  have : wrapExtend ts (ls.length + 1 + 1 - 1) = ts := by
    have hl : ls.length + 1 + 1 - 1 = ts.length := by simp at h; omega
    rw [hl]
    apply List.ext_getElem?
    intro i
    by_cases hi : i < ts.length
    · rw [wrapExtend_getElem? _ _ _ hpos hi, Nat.mod_eq_of_lt hi]
    · have h1 : (wrapExtend ts ts.length).length = ts.length := wrapExtend_length _ _ hpos
      rw [List.getElem?_eq_none (by omega), List.getElem?_eq_none (by omega)]
  rw [this]

/-- the documented default `Env.step()` is an envelope (D17: it used to raise) -/
theorem ctor_step_default : ∃ e, Env.step [] [] none none 0 = .ok e ∧ e.levels = [0, 0, 1] ∧ e.times = [1, 1] ∧
    e.releaseNode = none := by
  refine ⟨_, rfl, ?_, ?_, rfl⟩ <;> simp [Env.new, wrapExtend]

/-- `xyc` / `pairs`: the points sorted by time (stably), levels in that order, durations the
    differences of consecutive times, offset the first time, the last curve dropped. -/
theorem ctor_breakpoints_xyc (pts : List (ℚ × ℚ × Curve)) (p0 : ℚ × ℚ × Curve) (ps : List (ℚ × ℚ × Curve))
    (h : sortByTime pts = p0 :: ps) (h2 : ps ≠ []) :
    ∃ e, Env.xyc pts = .ok e ∧ e.levels = (p0 :: ps).map (·.2.1) ∧ e.offset = p0.1 ∧
      e.curves = ((p0 :: ps).map (·.2.2)).dropLast ∧ e.times = diffs ((p0 :: ps).map (·.1)) := by
  simp only [Env.xyc, h]
  refine ⟨_, rfl, ?_, rfl, rfl, ?_⟩
  · simp [Env.new]
  · obtain ⟨p1, ps', rfl⟩ := List.exists_cons_of_ne_nil h2
    simp only [Env.new, List.map_cons, diffs, List.isEmpty_cons, Bool.false_eq_true, if_false, List.length_cons,
      List.length_map]
    have hlen : ∀ (l : List ℚ) (a : ℚ), (diffs (a :: l)).length = l.length := by
      intro l; induction l with
      | nil => intro a; simp [diffs]
      | cons b l ih => intro a; simp [diffs, ih]
    have hpos : 0 < (diffs (p0.1 :: p1.1 :: ps'.map (·.1))).length := by rw [hlen]; simp
    have hl : ps'.length + 1 + 1 - 1 = (diffs (p0.1 :: p1.1 :: ps'.map (·.1))).length := by rw [hlen]; simp
    simp only [diffs] at hpos hl ⊢
    rw [hl]
    apply List.ext_getElem?
    intro i
    set d := (p1.1 - p0.1) :: diffs (p1.1 :: ps'.map (·.1)) with hd
    by_cases hi : i < d.length
    · rw [wrapExtend_getElem? _ _ _ hpos hi, Nat.mod_eq_of_lt hi]
    · have h1 : (wrapExtend d d.length).length = d.length := wrapExtend_length _ _ hpos
      rw [List.getElem?_eq_none (by omega), List.getElem?_eq_none (by omega)]

theorem ctor_pairs_is_xyc (pts : List (ℚ × ℚ)) (c : Curve) :
    Env.pairs pts .absent = Env.xyc (pts.map fun p => (p.1, p.2, Curve.name "lin")) ∧
    Env.pairs pts (.one c) = Env.xyc (pts.map fun p => (p.1, p.2, c)) := ⟨rfl, rfl⟩

/-! ## client-side evaluation (over ℝ, with the shape formulas generated from `_env_at`) -/

open GenR in
theorem segValue_total (c : ℝ) (sh : Int) (p sl tl : ℝ) (hd : InDomain sh sl tl) :
    ∃ v, segValue c sh p sl tl = .ok v := by
  obtain ⟨hsh, hexp, hsqr⟩ := hd
  unfold segValue
  rcases hsh with rfl | rfl | rfl | rfl | rfl | rfl | rfl | rfl
  · norm_num
  · norm_num
  · have hp := hexp rfl
    have hs : sl ≠ 0 := by intro h0; rw [h0] at hp; simp at hp
    norm_num [hs]
  · norm_num
  · norm_num
    split_ifs <;> simp
  · norm_num
    by_cases hsmall : Py.absR c < 1 / 10000
    · rw [if_pos hsmall]; simp
    · rw [if_neg hsmall]
      have hc : c ≠ 0 := abs_small_or (by simpa [Py.absR] using hsmall)
      have hz : ¬ (1 - exp_F c = 0) := exp_one_sub_ne hc
      rw [if_neg hz]; simp
  · norm_num
  · norm_num

/-- `at_breakpoint_is_level`: at the start of a segment of positive duration (reached after segments
    of non-negative duration) the value is the level of that breakpoint — for the `step` shape the
    target level, because a step segment jumps at its start. (All shapes in their documented
    domain except `cubed`, see `segValue_cubed_at_zero`.) -/
theorem at_breakpoint_is_level (start t0 : ℝ) (pre : List (Seg ℝ)) (sg : Seg ℝ) (post : List (Seg ℝ))
    (hd : ∀ s ∈ pre, 0 ≤ s.dur) (hpos : 0 < sg.dur) (hdom : InDomain sg.shape (lastLevel start pre) sg.level) :
    walkR (t0 + totalDur pre) start t0 (pre ++ sg :: post) =
      .ok (if sg.shape = 0 then sg.level else lastLevel start pre) := by
  rw [walk_locate _ start t0 pre sg post hd le_rfl (by linarith)]
  have : (t0 + totalDur pre - (t0 + totalDur pre)) / sg.dur = 0 := by simp
  rw [this]
  exact segValue_at_zero sg.curve sg.shape _ _ hdom

/-- The exponential shape at the start of a segment returns the start level whatever the target is —
    also for a target of exactly 0 (`0⁰ = 1`) and for a start level of 0. -/
theorem exp_at_segment_start (c sl tl : ℝ) : GenR.segValue c 2 0 sl tl = .ok sl := by
  unfold GenR.segValue
  by_cases hs : sl = 0
  · norm_num [hs]
  · norm_num [hs, pow_FF_zero]

/-- `within_segment_between_neighbours`: inside a segment the value lies between the levels of the
    two neighbouring breakpoints (step, hold, linear, sine, welch, curvature, exponential with
    levels of one sign, squared with non-negative levels). -/
theorem within_segment_between_neighbours (time start t0 v : ℝ) (pre : List (Seg ℝ)) (sg : Seg ℝ)
    (post : List (Seg ℝ)) (hd : ∀ s ∈ pre, 0 ≤ s.dur)
    (h1 : t0 + totalDur pre ≤ time) (h2 : time < t0 + totalDur pre + sg.dur)
    (hdom : InDomain sg.shape (lastLevel start pre) sg.level)
    (h : walkR time start t0 (pre ++ sg :: post) = .ok v) :
    min (lastLevel start pre) sg.level ≤ v ∧ v ≤ max (lastLevel start pre) sg.level := by
  rw [walk_locate time start t0 pre sg post hd h1 h2] at h
  have hpos : 0 < sg.dur := by linarith
  refine segValue_between sg.curve sg.shape _ _ _ v hdom ?_ ?_ h
  · exact div_nonneg (by linarith) hpos.le
  · rw [div_le_one hpos]; linarith

/-- … and it is always defined there (the evaluation does not raise inside the documented domain). -/
theorem within_segment_defined (time start t0 : ℝ) (pre : List (Seg ℝ)) (sg : Seg ℝ) (post : List (Seg ℝ))
    (hd : ∀ s ∈ pre, 0 ≤ s.dur) (h1 : t0 + totalDur pre ≤ time) (h2 : time < t0 + totalDur pre + sg.dur)
    (hdom : InDomain sg.shape (lastLevel start pre) sg.level) :
    ∃ v, walkR time start t0 (pre ++ sg :: post) = .ok v := by
  rw [walk_locate time start t0 pre sg post hd h1 h2]
  exact segValue_total _ _ _ _ _ hdom

/-- `after_end_holds_last`: from the end of the last segment on the value is the last level. -/
theorem after_end_holds_last (time start t0 : ℝ) (segs : List (Seg ℝ)) (hd : ∀ s ∈ segs, 0 ≤ s.dur)
    (h : t0 + totalDur segs ≤ time) : walkR time start t0 segs = .ok (lastLevel start segs) :=
  walk_after_end time start t0 segs hd h

/-- The executable evaluation (the one run against the real `Env._at`) is the real-number
    evaluation wherever it is defined: same segments, same time `max(0, t − offset)`. -/
theorem env_at_agrees_with_real (e : Env) (t v : ℚ) (h : e.at t = .ok v) :
    ∃ (l0 : ℚ) (sgs : List (Seg ℚ)), e.levels.head? = some l0 ∧ e.segs = .ok sgs ∧
      walkR ((if t - e.offset < 0 then 0 else t - e.offset : ℚ) : ℝ) l0 0 (sgs.map Seg.toReal) = .ok (v : ℝ) := by
  unfold Env.at at h
  cases hs : e.segs with
  | error err => simp [hs, bind, Except.bind] at h
  | ok sgs =>
    simp only [hs, bind, Except.bind] at h
    cases hl : e.levels with
    | nil => simp [hl] at h
    | cons l0 rest =>
      cases sgs with
      | nil => simp [hl] at h
      | cons sg sgs' =>
        simp only [hl] at h
        refine ⟨l0, sg :: sgs', by simp, rfl, ?_⟩
        have := walk_cast _ l0 0 v (sg :: sgs') h
        simpa using this

/-- An envelope without segments cannot be evaluated (`ValueError`), as in the code. -/
theorem at_needs_a_segment (e : Env) (t : ℚ) (h : e.times = []) (hl : e.levels ≠ []) :
    e.at t = .error "ValueError" := by
  unfold Env.at
  have : e.segs = .ok [] := by simp [Env.segs, h, pure, Except.pure]
  simp only [this, bind, Except.bind]
  cases hlv : e.levels <;> simp_all

/-! ## Non-vacuity -/

example : InDomain 3 0 1 := ⟨by decide, by decide, by decide⟩
/-- triangle of duration 2: at t = 1/2 (inside the first segment) the value is 1/2 -/
example : (GenC.triangle 2 1).at (1 / 2) = .ok (1 / 2) := by
  rw [ctor_breakpoints_triangle]
  simp [Env.at, Env.segs, Env.seg?, shapeNumber, curveValue, Gen.shapeNames, List.lookup, walk, Gen.segPos,
    Gen.segValue, bind, Except.bind, pure, Except.pure, List.range, List.range.loop]
  norm_num
example : (GenC.adsr (1/4) (1/2) (1/2) 1 1 (.name "lin") 0).format =
    .ok [0, 3, 2, -99, 1, 1/4, 1, 0, 1/2, 1/2, 1, 0, 0, 1, 1, 0] := by
  rw [ctor_breakpoints_adsr]
  simp [Env.format, Env.segs, Env.seg?, shapeNumber, curveValue, Gen.shapeNames, List.lookup, nodeOr99,
    bind, Except.bind, pure, Except.pure, List.range, List.range.loop]

end Sc3Verif.C19
