/-
C19 — the data of an `Env` instance and the hand model of `Env.__init__` (used by the generated
constructors `GenCtors.lean` and by `Model.lean`).  Core Lean only.
-/
import Sc3Verif.C15.Model
namespace Sc3Verif.C19
open Sc3Verif.C15.Lift (wrapExtend)

/-- a curve specification: a shape name or a curvature number -/
inductive Curve where
  | name (s : String)
  | num (c : Rat)
deriving Repr, DecidableEq, Inhabited

/-- the attributes of an `Env` instance -/
structure Env where
  levels : List Rat
  times : List Rat
  curves : List Curve           -- `utl.as_list(self.curves)`
  releaseNode : Option Int
  loopNode : Option Int
  offset : Rat
deriving Repr, DecidableEq

/-- `Env(levels, times, curves, release_node, loop_node, offset)`:
    `levels or [0, 1, 0]`, `wrap_extend(as_list(times or [1, 1]), len(levels) - 1)`. -/
def Env.new (levels times : List Rat) (curves : List Curve) (rel loop : Option Int) (offset : Rat) : Env :=
  let lv := if levels.isEmpty then [0, 1, 0] else levels
  let tm := if times.isEmpty then [1, 1] else times
  { levels := lv, times := wrapExtend tm (lv.length - 1), curves := curves,
    releaseNode := rel, loopNode := loop, offset := offset }

end Sc3Verif.C19
