/-
C19 line-protocol driver:  `lake env lean --run Sc3Verif/C19/Driver.lean < cases`
One JSON object per line (see harness/props/c19.py `gen`), one JSON answer per line:
  {"fmt": [ "p/q", … ] | "E:…",  "at": [ "p/q" | "E:…", … ]}
-/
import Lean.Data.Json
import Sc3Verif.C19.Model
open Sc3Verif.C19 Sc3Verif.C19.Gen
open Lean (Json)

def parseRat (s : String) : Option Rat :=
  match s.splitOn "/" with
  | [p] => do some ((← p.toInt?) : Rat)
  | [p, q] => do
      let n ← p.toInt?
      let d ← q.toNat?
      if d = 0 then none else some ((n : Rat) / (d : Rat))
  | _ => none

def fmtRat (q : Rat) : String :=
  if q.den = 1 then s!"{q.num}" else s!"{q.num}/{q.den}"

def jRat (j : Json) : Option Rat := match j with | .str s => parseRat s | _ => none
def jRats (j : Json) : Option (List Rat) := match j with | .arr a => a.toList.mapM jRat | _ => none
def jCurve (j : Json) : Option Curve :=
  match j with
  | .str s => if s.startsWith "n:" then some (.name (s.drop 2).toString)
              else if s.startsWith "c:" then (parseRat (s.drop 2).toString).map Curve.num
              else if s.startsWith "ci:" then (parseRat (s.drop 3).toString).map Curve.num   -- a Python int
              else none
  | _ => none
def jCurves (j : Json) : Option (List Curve) :=
  match j with
  | .arr a => a.toList.mapM jCurve
  | j => (jCurve j).map fun c => [c]
def jOptInt (j : Json) : Option (Option Int) :=
  match j with
  | .null => some none
  | .num n => if n.exponent = 0 then some (some n.mantissa) else none
  | _ => none

def getD (j : Json) (k : String) : Json := (j.getObjVal? k).toOption.getD .null

def build (j : Json) : Option (Except String Env) := do
  let ctor ← (getD j "ctor").getStr?.toOption
  let args := (jRats (getD j "args")).getD []
  let curve := (jCurve (getD j "curve")).getD (.name "lin")
  match ctor, args with
  | "new", _ =>
    let lv ← jRats (getD j "levels")
    let tm ← jRats (getD j "times")
    let cs ← jCurves (getD j "curves")
    let rel ← jOptInt (getD j "rel")
    let loop ← jOptInt (getD j "loop")
    let off ← jRat (getD j "offset")
    some (.ok (Env.new lv tm cs rel loop off))
  | "triangle", [d, l] => some (.ok (GenC.triangle d l))
  | "sine", [d, l] => some (.ok (GenC.sine d l))
  | "perc", [a, r, l] => some (.ok (GenC.perc a r l curve))
  | "linen", [a, s, r, l] => some (.ok (GenC.linen a s r l curve))
  | "cutoff", [r, l] => some (Env.cutoff r l curve)
  | "dadsr", [dl, a, d, s, r, p, b] => some (.ok (GenC.dadsr dl a d s r p curve b))
  | "adsr", [a, d, s, r, p, b] => some (.ok (GenC.adsr a d s r p curve b))
  | "asr", [a, s, r] => some (.ok (GenC.asr a s r curve))
  | "step", _ =>
    let lv ← jRats (getD j "levels")
    let tm ← jRats (getD j "times")
    let rel ← jOptInt (getD j "rel")
    let loop ← jOptInt (getD j "loop")
    let off ← jRat (getD j "offset")
    some (Env.step lv tm rel loop off)
  | "xyc", _ =>
    match getD j "pts" with
    | .arr a => do
      let pts ← a.toList.mapM fun p => match p with
        | .arr #[t, l, c] => do some ((← jRat t), (← jRat l), (← jCurve c))
        | _ => none
      some (Env.xyc pts)
    | _ => none
  | "pairs", _ =>
    match getD j "pts" with
    | .arr a => do
      let pts ← a.toList.mapM fun p => match p with
        | .arr #[t, l] => do some ((← jRat t), (← jRat l))
        | _ => none
      let cs : PairCurves ← match getD j "curves" with
        | .null => some .absent
        | .arr cs => (cs.toList.mapM jCurve).map PairCurves.many
        | c => (jCurve c).map PairCurves.one
      some (Env.pairs pts cs)
    | _ => none
  | _, _ => none

def runCase (j : Json) : String :=
  match build j with
  | none => "{\"fmt\": \"bad-case\", \"at\": []}"
  | some (.error e) => (Json.mkObj [("fmt", .str s!"E:{e}"), ("at", .arr #[])]).compress
  | some (.ok env) =>
    let fmt : Json := match env.format with
      | .ok l => .arr (l.map fun q => Json.str (fmtRat q)).toArray
      | .error e => .str s!"E:{e}"
    let times := (jRats (getD j "at")).getD []
    let ats := times.map fun t => match env.at t with
      | .ok v => Json.str (fmtRat v)
      | .error e => Json.str s!"E:{e}"
    (Json.mkObj [("fmt", fmt), ("at", .arr ats.toArray),
      ("env", Json.mkObj [("levels", .arr (env.levels.map fun q => Json.str (fmtRat q)).toArray),
                          ("times", .arr (env.times.map fun q => Json.str (fmtRat q)).toArray),
                          ("offset", .str (fmtRat env.offset))])]).compress

partial def loop (h : IO.FS.Stream) (out : IO.FS.Stream) : IO Unit := do
  let line ← h.getLine
  if line.isEmpty then return ()
  let l := line.trimAscii.toString
  if l.isEmpty then loop h out
  else
    match Json.parse l with
    | .ok j => out.putStrLn (runCase j)
    | .error e => out.putStrLn s!"bad-json {e}"
    loop h out

def main : IO Unit := do
  loop (← IO.getStdin) (← IO.getStdout)
