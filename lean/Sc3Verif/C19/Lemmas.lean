/-
C19 — helper lemmas: the segment walk over ℝ, the generated shape formulas (bounds, value at the
start of a segment), and the agreement of the executable (Rat) definitions with the real ones.
-/
import Sc3Verif.C19.Model
import Sc3Verif.C19.GenEnvReal
import Sc3Verif.C19.Spec
import Mathlib.Tactic.Linarith
import Mathlib.Tactic.Ring
import Mathlib.Tactic.FieldSimp
import Mathlib.Tactic.Positivity
import Mathlib.Tactic.NormNum
namespace Sc3Verif.C19
open Sc3Verif.C19

/-- the walk of `_env_at` over the reals, with the generated shape formulas -/
noncomputable def walkR (time start t0 : ℝ) (segs : List (Seg ℝ)) : Except String ℝ :=
  walk GenR.segValue GenR.segPos time start t0 segs

/-- sum of the durations -/
def totalDur : List (Seg ℝ) → ℝ
  | [] => 0
  | sg :: rest => sg.dur + totalDur rest

/-- the level reached after a list of segments -/
def lastLevel (start : ℝ) : List (Seg ℝ) → ℝ
  | [] => start
  | sg :: rest => lastLevel sg.level rest

theorem totalDur_nonneg {segs : List (Seg ℝ)} (h : ∀ sg ∈ segs, 0 ≤ sg.dur) : 0 ≤ totalDur segs := by
  induction segs with
  | nil => simp [totalDur]
  | cons sg rest ih =>
    simp only [totalDur]
    have := h sg (List.mem_cons_self)
    have := ih (fun s hs => h s (List.mem_cons_of_mem _ hs))
    linarith

/-- Segments that have ended by `time` are skipped. -/
theorem walk_skip (time start t0 : ℝ) (pre rest : List (Seg ℝ)) (hd : ∀ sg ∈ pre, 0 ≤ sg.dur)
    (ht : t0 + totalDur pre ≤ time) :
    walkR time start t0 (pre ++ rest) = walkR time (lastLevel start pre) (t0 + totalDur pre) rest := by
  induction pre generalizing start t0 with
  | nil => simp [totalDur, lastLevel]
  | cons sg pre ih =>
    have h0 := hd sg (List.mem_cons_self)
    have hrest : 0 ≤ totalDur pre := totalDur_nonneg (fun s hs => hd s (List.mem_cons_of_mem _ hs))
    simp only [totalDur] at ht
    simp only [List.cons_append, walkR, walk]
    rw [if_neg (by linarith)]
    have := ih sg.level (t0 + sg.dur) (fun s hs => hd s (List.mem_cons_of_mem _ hs)) (by linarith)
    simp only [walkR] at this
    rw [this]
    simp only [totalDur, lastLevel]
    congr 1; ring

/-- After the end the envelope holds its last level. -/
theorem walk_after_end (time start t0 : ℝ) (segs : List (Seg ℝ)) (hd : ∀ sg ∈ segs, 0 ≤ sg.dur)
    (ht : t0 + totalDur segs ≤ time) : walkR time start t0 segs = .ok (lastLevel start segs) := by
  have := walk_skip time start t0 segs [] hd ht
  simp only [List.append_nil] at this
  rw [this]; simp [walkR, walk]

/-- Inside segment `sg` (which starts at `t0 + totalDur pre`) the value is the shape formula of that
    segment at the relative position. -/
theorem walk_locate (time start t0 : ℝ) (pre : List (Seg ℝ)) (sg : Seg ℝ) (post : List (Seg ℝ))
    (hd : ∀ s ∈ pre, 0 ≤ s.dur) (h1 : t0 + totalDur pre ≤ time) (h2 : time < t0 + totalDur pre + sg.dur) :
    walkR time start t0 (pre ++ sg :: post) =
      GenR.segValue sg.curve sg.shape ((time - (t0 + totalDur pre)) / sg.dur) (lastLevel start pre) sg.level := by
  rw [walk_skip time start t0 pre (sg :: post) hd h1]
  simp only [walkR, walk]
  rw [if_pos h2]
  have hpos : sg.dur ≠ 0 := by
    intro h0; rw [h0] at h2; linarith
  simp only [GenR.segPos, hpos, if_false]
  rfl

/-! ### the shape formulas (generated, over ℝ) -/

open GenR in
theorem pow_FF_zero (a : ℝ) : pow_FF a 0 = 1 := by
  unfold pow_FF; split_ifs <;> simp [Real.rpow_eq_pow]

open GenR in
theorem pow_FF_pos_eq {a : ℝ} (ha : 0 < a) (b : ℝ) : pow_FF a b = a ^ b := by
  unfold pow_FF; simp [ha.le, Real.rpow_eq_pow]

open GenR in
theorem sqrt_F_nonneg_eq {x : ℝ} (hx : 0 ≤ x) : sqrt_F x = Real.sqrt x := by
  unfold sqrt_F; simp [not_lt.mpr hx]

/-- a convex combination stays between its end points -/
theorem between_of_factor {sl tl f : ℝ} (h0 : 0 ≤ f) (h1 : f ≤ 1) :
    min sl tl ≤ sl + (tl - sl) * f ∧ sl + (tl - sl) * f ≤ max sl tl := by
  rcases le_total sl tl with h | h
  · rw [min_eq_left h, max_eq_right h]; constructor <;> nlinarith
  · rw [min_eq_right h, max_eq_left h]; constructor <;> nlinarith

theorem curve_factor {c p : ℝ} (hc : c ≠ 0) (hp0 : 0 ≤ p) (hp1 : p ≤ 1) :
    0 ≤ (1 - Real.exp (p * c)) / (1 - Real.exp c) ∧ (1 - Real.exp (p * c)) / (1 - Real.exp c) ≤ 1 := by
  rcases lt_or_gt_of_ne hc with hneg | hpos
  · -- c < 0: both 1 - e^{pc} and 1 - e^c are ≥ 0, the latter > 0
    have hd : 0 < 1 - Real.exp c := by
      have : Real.exp c < 1 := by rw [← Real.exp_zero]; exact Real.exp_lt_exp.mpr hneg
      linarith
    have hn : 0 ≤ 1 - Real.exp (p * c) := by
      have : Real.exp (p * c) ≤ 1 := by rw [← Real.exp_zero]; exact Real.exp_le_exp.mpr (by nlinarith)
      linarith
    have hle : 1 - Real.exp (p * c) ≤ 1 - Real.exp c := by
      have : Real.exp c ≤ Real.exp (p * c) := Real.exp_le_exp.mpr (by nlinarith)
      linarith
    exact ⟨div_nonneg hn hd.le, (div_le_one hd).mpr hle⟩
  · have hd : 1 - Real.exp c < 0 := by
      have : 1 < Real.exp c := by rw [← Real.exp_zero]; exact Real.exp_lt_exp.mpr hpos
      linarith
    have hn : 1 - Real.exp (p * c) ≤ 0 := by
      have : 1 ≤ Real.exp (p * c) := by rw [← Real.exp_zero]; exact Real.exp_le_exp.mpr (by nlinarith)
      linarith
    have hle : 1 - Real.exp c ≤ 1 - Real.exp (p * c) := by
      have : Real.exp (p * c) ≤ Real.exp c := Real.exp_le_exp.mpr (by nlinarith)
      linarith
    exact ⟨div_nonneg_of_nonpos hn hd.le, (div_le_one_of_neg hd).mpr hle⟩

theorem exp_one_sub_ne {c : ℝ} (hc : c ≠ 0) : 1 - Real.exp c ≠ 0 := by
  intro h
  have : Real.exp c = Real.exp 0 := by rw [Real.exp_zero]; linarith
  exact hc (Real.exp_injective this)

/-- `sl · r^p` with `r = tl / sl > 0`, `0 ≤ p ≤ 1`, lies between `sl` and `tl`. -/
theorem exp_between {sl tl p : ℝ} (hs : sl ≠ 0) (hsame : 0 < sl * tl) (hp0 : 0 ≤ p) (hp1 : p ≤ 1) :
    min sl tl ≤ sl * (tl / sl) ^ p ∧ sl * (tl / sl) ^ p ≤ max sl tl := by
  have hr : 0 < tl / sl := by
    have : tl / sl = sl * tl / (sl * sl) := by field_simp
    rw [this]; exact div_pos hsame (mul_self_pos.mpr hs)
  have e : sl * (tl / sl) = tl := by field_simp
  rcases le_total 1 (tl / sl) with hge | hle
  · have a1 : (1 : ℝ) ≤ (tl / sl) ^ p := Real.one_le_rpow hge hp0
    have a2 : (tl / sl) ^ p ≤ tl / sl := by
      have := Real.rpow_le_rpow_of_exponent_le hge hp1
      rwa [Real.rpow_one] at this
    rcases lt_or_gt_of_ne hs with hneg | hpos
    · have h1 : sl * (tl / sl) ≤ sl * (tl / sl) ^ p := mul_le_mul_of_nonpos_left a2 hneg.le
      have h2 : sl * (tl / sl) ^ p ≤ sl * 1 := mul_le_mul_of_nonpos_left a1 hneg.le
      rw [e] at h1; rw [mul_one] at h2
      exact ⟨le_trans (min_le_right _ _) h1, le_trans h2 (le_max_left _ _)⟩
    · have h1 : sl * 1 ≤ sl * (tl / sl) ^ p := mul_le_mul_of_nonneg_left a1 hpos.le
      have h2 : sl * (tl / sl) ^ p ≤ sl * (tl / sl) := mul_le_mul_of_nonneg_left a2 hpos.le
      rw [e] at h2; rw [mul_one] at h1
      exact ⟨le_trans (min_le_left _ _) h1, le_trans h2 (le_max_right _ _)⟩
  · have a1 : (tl / sl) ^ p ≤ 1 := Real.rpow_le_one hr.le hle hp0
    have a2 : tl / sl ≤ (tl / sl) ^ p := by
      have := Real.rpow_le_rpow_of_exponent_ge hr hle hp1
      rwa [Real.rpow_one] at this
    rcases lt_or_gt_of_ne hs with hneg | hpos
    · have h1 : sl * 1 ≤ sl * (tl / sl) ^ p := mul_le_mul_of_nonpos_left a1 hneg.le
      have h2 : sl * (tl / sl) ^ p ≤ sl * (tl / sl) := mul_le_mul_of_nonpos_left a2 hneg.le
      rw [e] at h2; rw [mul_one] at h1
      exact ⟨le_trans (min_le_left _ _) h1, le_trans h2 (le_max_right _ _)⟩
    · have h1 : sl * (tl / sl) ≤ sl * (tl / sl) ^ p := mul_le_mul_of_nonneg_left a2 hpos.le
      have h2 : sl * (tl / sl) ^ p ≤ sl * 1 := mul_le_mul_of_nonneg_left a1 hpos.le
      rw [e] at h1; rw [mul_one] at h2
      exact ⟨le_trans (min_le_right _ _) h1, le_trans h2 (le_max_left _ _)⟩

/-- `(p (√tl − √sl) + √sl)²` lies between `sl` and `tl` for non-negative levels. -/
theorem sqr_between {sl tl p : ℝ} (hs : 0 ≤ sl) (ht : 0 ≤ tl) (hp0 : 0 ≤ p) (hp1 : p ≤ 1) :
    min sl tl ≤ (p * (Real.sqrt tl - Real.sqrt sl) + Real.sqrt sl) * (p * (Real.sqrt tl - Real.sqrt sl) + Real.sqrt sl) ∧
    (p * (Real.sqrt tl - Real.sqrt sl) + Real.sqrt sl) * (p * (Real.sqrt tl - Real.sqrt sl) + Real.sqrt sl) ≤ max sl tl := by
  have a := Real.sqrt_nonneg sl
  have b := Real.sqrt_nonneg tl
  have ea := Real.mul_self_sqrt hs
  have eb := Real.mul_self_sqrt ht
  set x := Real.sqrt sl
  set y := Real.sqrt tl
  rcases le_total x y with h | h
  · have hst : sl ≤ tl := by rw [← ea, ← eb]; nlinarith
    rw [min_eq_left hst, max_eq_right hst, ← ea, ← eb]
    have l1 : x ≤ p * (y - x) + x := by nlinarith
    have l2 : p * (y - x) + x ≤ y := by nlinarith
    constructor <;> nlinarith
  · have hst : tl ≤ sl := by rw [← ea, ← eb]; nlinarith
    rw [min_eq_right hst, max_eq_left hst, ← ea, ← eb]
    have l1 : y ≤ p * (y - x) + x := by nlinarith
    have l2 : p * (y - x) + x ≤ x := by nlinarith
    constructor <;> nlinarith

/-- The documented domain of a shape: a known shape number other than "cubed"; exponential needs
    non-zero levels of one sign, squared non-negative levels. -/
def InDomain (sh : Int) (sl tl : ℝ) : Prop :=
  (sh = 0 ∨ sh = 1 ∨ sh = 2 ∨ sh = 3 ∨ sh = 4 ∨ sh = 5 ∨ sh = 6 ∨ sh = 8) ∧
  (sh = 2 → 0 < sl * tl) ∧ (sh = 6 → 0 ≤ sl ∧ 0 ≤ tl)

theorem abs_small_or {c : ℝ} (h : ¬ |c| < 1 / 10000) : c ≠ 0 := by
  intro h0; apply h; rw [h0]; norm_num

open GenR in
theorem segValue_between (c : ℝ) (sh : Int) (p sl tl v : ℝ) (hd : InDomain sh sl tl)
    (hp0 : 0 ≤ p) (hp1 : p ≤ 1) (h : segValue c sh p sl tl = .ok v) : min sl tl ≤ v ∧ v ≤ max sl tl := by
  obtain ⟨hsh, hexp, hsqr⟩ := hd
  unfold segValue at h
  rcases hsh with rfl | rfl | rfl | rfl | rfl | rfl | rfl | rfl
  · -- step
    simp only [if_true, Except.ok.injEq] at h; subst h
    exact ⟨min_le_right _ _, le_max_right _ _⟩
  · -- linear
    norm_num at h; subst h
    have := between_of_factor (sl := sl) (tl := tl) hp0 hp1
    constructor <;> [linarith [this.1]; linarith [this.2]]
  · -- exponential
    have hpos := hexp rfl
    have hs : sl ≠ 0 := by intro h0; rw [h0] at hpos; simp at hpos
    norm_num [hs] at h; subst h
    have hr : 0 < tl / sl := by
      have : tl / sl = sl * tl / (sl * sl) := by field_simp
      rw [this]; exact div_pos hpos (mul_self_pos.mpr hs)
    rw [pow_FF_pos_eq hr]
    exact exp_between hs hpos hp0 hp1
  · -- sine
    norm_num at h; subst h
    simp only [cos_F]
    have c1 := Real.cos_le_one (Real.pi * p)
    have c2 := Real.neg_one_le_cos (Real.pi * p)
    have := between_of_factor (sl := sl) (tl := tl) (f := -(Real.cos (Real.pi * p) * (1 / 2)) + 1 / 2)
      (by linarith) (by linarith)
    exact this
  · -- welch
    norm_num at h
    have hpi := Real.pi_pos
    split_ifs at h with hlt
    · simp only [Except.ok.injEq] at h; subst h
      simp only [sin_F]
      have s0 : 0 ≤ Real.sin (Real.pi * (1 / 2) * p) :=
        Real.sin_nonneg_of_nonneg_of_le_pi (by positivity) (by nlinarith)
      have s1 := Real.sin_le_one (Real.pi * (1 / 2) * p)
      exact between_of_factor s0 s1
    · simp only [Except.ok.injEq] at h; subst h
      simp only [sin_F]
      have s0 : 0 ≤ Real.sin (Real.pi * (1 / 2) - Real.pi * (1 / 2) * p) :=
        Real.sin_nonneg_of_nonneg_of_le_pi (by nlinarith) (by nlinarith)
      have s1 := Real.sin_le_one (Real.pi * (1 / 2) - Real.pi * (1 / 2) * p)
      have hle : tl ≤ sl := not_lt.mp hlt
      rw [min_eq_right hle, max_eq_left hle]
      constructor <;> nlinarith
  · -- curvature value
    norm_num at h
    by_cases hsmall : Py.absR c < 1 / 10000
    · rw [if_pos hsmall] at h
      simp only [Except.ok.injEq] at h; subst h
      have := between_of_factor (sl := sl) (tl := tl) hp0 hp1
      constructor <;> [linarith [this.1]; linarith [this.2]]
    · rw [if_neg hsmall] at h
      have hc : c ≠ 0 := abs_small_or (by simpa [Py.absR] using hsmall)
      have hz : ¬ (1 - exp_F c = 0) := exp_one_sub_ne hc
      rw [if_neg hz] at h
      simp only [Except.ok.injEq] at h; subst h
      simp only [exp_F]
      obtain ⟨f0, f1⟩ := curve_factor hc hp0 hp1
      exact between_of_factor f0 f1
  · -- squared
    obtain ⟨h0, h1⟩ := hsqr rfl
    norm_num at h; subst h
    rw [sqrt_F_nonneg_eq h0, sqrt_F_nonneg_eq h1]
    exact sqr_between h0 h1 hp0 hp1
  · -- hold
    norm_num at h; subst h
    exact ⟨min_le_left _ _, le_max_left _ _⟩

open GenR in
theorem segValue_at_zero (c : ℝ) (sh : Int) (sl tl : ℝ) (hd : InDomain sh sl tl) :
    segValue c sh 0 sl tl = .ok (if sh = 0 then tl else sl) := by
  obtain ⟨hsh, hexp, hsqr⟩ := hd
  unfold segValue
  rcases hsh with rfl | rfl | rfl | rfl | rfl | rfl | rfl | rfl
  · simp
  · norm_num
  · have hpos := hexp rfl
    have hs : sl ≠ 0 := by intro h0; rw [h0] at hpos; simp at hpos
    norm_num [hs, pow_FF_zero]
  · norm_num [cos_F]
  · norm_num [sin_F]
    intro _
    have : Real.sin (Real.pi * (1 / 2)) = 1 := by rw [mul_one_div]; exact Real.sin_pi_div_two
    rw [this]; ring
  · norm_num [Py.absR, exp_F]
    intro h1 h2
    exact absurd h2 (exp_one_sub_ne (abs_small_or (not_lt.mpr h1)))
  · obtain ⟨h0, _⟩ := hsqr rfl
    norm_num [sqrt_F_nonneg_eq h0]
    exact Real.mul_self_sqrt h0
  · norm_num

open GenR in
/-- cubed: the client formula uses the exponent 0.3333333, so at a breakpoint it returns
    `sl ^ 0.9999999` instead of `sl` (what is proved for this shape). -/
theorem segValue_cubed_at_zero (c sl tl : ℝ) :
    segValue c 7 0 sl tl = .ok (pow_FF sl (3333333 / 10000000) * pow_FF sl (3333333 / 10000000) * pow_FF sl (3333333 / 10000000)) := by
  unfold segValue; norm_num

/-! ### the executable (Rat) definitions agree with the real ones where they are defined -/

def Seg.toReal (s : Seg ℚ) : Seg ℝ := { level := s.level, dur := s.dur, shape := s.shape, curve := s.curve }

theorem absQ_cast (c : ℚ) : ((Gen.Py.absQ c : ℚ) : ℝ) = |(c : ℝ)| := by
  unfold Gen.Py.absQ
  split_ifs with h
  · have : (c : ℝ) < 0 := by exact_mod_cast h
    rw [abs_of_neg this]; push_cast; ring
  · have : (0 : ℝ) ≤ c := by exact_mod_cast (not_lt.mp h)
    rw [abs_of_nonneg this]

theorem segValue_cast (c : ℚ) (sh : Int) (p sl tl v : ℚ) (h : Gen.segValue c sh p sl tl = .ok v) :
    GenR.segValue c sh p sl tl = .ok (v : ℝ) := by
  unfold Gen.segValue at h
  unfold GenR.segValue
  by_cases h0 : sh = 0
  · simp only [h0, if_true, Except.ok.injEq] at h ⊢; rw [h]
  rw [if_neg h0] at h ⊢
  by_cases h8 : sh = 8
  · simp only [h8, if_true, Except.ok.injEq] at h ⊢; rw [h]
  rw [if_neg h8] at h ⊢
  by_cases h1 : sh = 1
  · simp only [h1, if_true, Except.ok.injEq] at h ⊢; rw [← h]; push_cast; ring
  rw [if_neg h1] at h ⊢
  by_cases h2 : sh = 2
  · simp only [h2, if_true] at h ⊢
    split_ifs at h with hs
    · simp only [Except.ok.injEq] at h
      have : (sl : ℝ) = 0 := by exact_mod_cast hs
      rw [if_pos this, ← h]; simp
  rw [if_neg h2] at h ⊢
  by_cases h3 : sh = 3
  · simp only [h3, if_true] at h; cases h
  rw [if_neg h3] at h ⊢
  by_cases h4 : sh = 4
  · simp only [h4, if_true] at h; split_ifs at h <;> cases h
  rw [if_neg h4] at h ⊢
  by_cases h5 : sh = 5
  · simp only [h5, if_true] at h ⊢
    split_ifs at h with hsmall
    · simp only [Except.ok.injEq] at h
      have : GenR.Py.absR (c : ℝ) < 1 / 10000 := by
        have := absQ_cast c
        simp only [GenR.Py.absR]
        rw [← this]
        have h' : ((Gen.Py.absQ c : ℚ) : ℝ) < ((1 / 10000 : ℚ) : ℝ) := by exact_mod_cast hsmall
        simpa using h'
      rw [if_pos this, ← h]; push_cast; ring_nf
  rw [if_neg h5] at h ⊢
  by_cases h6 : sh = 6
  · simp only [h6, if_true] at h; cases h
  rw [if_neg h6] at h ⊢
  by_cases h7 : sh = 7
  · simp only [h7, if_true] at h; cases h
  rw [if_neg h7] at h
  cases h

theorem segPos_cast (t t0 d v : ℚ) (h : Gen.segPos t t0 d = .ok v) :
    GenR.segPos t t0 d = .ok (v : ℝ) := by
  unfold Gen.segPos at h
  unfold GenR.segPos
  split_ifs at h with hd
  simp only [Except.ok.injEq] at h
  have : (d : ℝ) ≠ 0 := by exact_mod_cast hd
  rw [if_neg this, ← h]; push_cast; rfl

theorem walk_cast (t start t0 v : ℚ) (segs : List (Seg ℚ))
    (h : walk Gen.segValue Gen.segPos t start t0 segs = .ok v) :
    walkR t start t0 (segs.map Seg.toReal) = .ok (v : ℝ) := by
  induction segs generalizing start t0 with
  | nil =>
    simp only [walk, Except.ok.injEq] at h
    simp [walkR, walk, h]
  | cons sg rest ih =>
    simp only [walk] at h
    simp only [List.map_cons, walkR, walk, Seg.toReal]
    split_ifs at h with hlt
    · have : (t : ℝ) < (t0 : ℝ) + (sg.dur : ℝ) := by exact_mod_cast hlt
      rw [if_pos this]
      cases hp : Gen.segPos t t0 sg.dur with
      | error e => rw [hp] at h; cases h
      | ok pos =>
        rw [hp] at h
        rw [segPos_cast _ _ _ _ hp]
        exact segValue_cast _ _ _ _ _ _ h
    · have : ¬ (t : ℝ) < (t0 : ℝ) + (sg.dur : ℝ) := by
        intro hc; apply hlt; exact_mod_cast hc
      rw [if_neg this]
      have := ih sg.level (t0 + sg.dur) h
      simp only [walkR, Seg.toReal] at this
      push_cast at this
      exact this
end Sc3Verif.C19
