/-
C19 — reference data and the abstract statement (short, hand-written; an error here is an error in
the specification).

`serverShapes`: the envelope shape numbers of the SuperCollider server (EnvGen / Env.shapeNumber:
step 0, linear 1, exponential 2, sine 3, welch 4, [curvature value 5], squared 6, cubed 7, hold 8)
for exactly the names the `Env` docstring promises.

Layout of the EnvGen array (Env.asMultichannelArray):
  [ initial level, number of segments, release node or -99, loop node or -99,
    target level₀, duration₀, shape₀, curvature₀,  target level₁, … ]

Client-side evaluation `at t` (t ≥ 0 after subtracting the offset): the level at a breakpoint,
between the neighbouring levels inside a segment, the last level after the end.
-/
namespace Sc3Verif.C19.Spec

def serverShapes : List (String × Int) :=
  [("step", 0), ("lin", 1), ("linear", 1), ("exp", 2), ("exponential", 2), ("sin", 3), ("sine", 3),
   ("wel", 4), ("welch", 4), ("sqr", 6), ("squared", 6), ("cub", 7), ("cubed", 7), ("hold", 8)]

/-- shape number used for a numeric curvature -/
def curveShape : Int := 5

end Sc3Verif.C19.Spec
