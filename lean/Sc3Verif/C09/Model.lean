/-
C09 — executable model of `sc3/base/_taskq.py` (class `TaskQueue`).

What is modelled exactly: the tombstone discipline (`_REMOVED` marker written into the
heap entry), the `_entry_finder` dict (as its key list), the monotone `_counter`, the
`_removed_counter` bookkeeping, `add` = remove-if-present + push, the skip loop of `pop`,
`peek(smallest|largest)`, `empty`, `clear`, `__iter__`.

What is abstracted (trusted): CPython's `heapq`.  A heap of entries `[prio, count, task]`
is represented by the list of its entries kept sorted by the list comparison Python uses
(`prio`, then `count`; `count` is unique so `task` is never compared).  `heappush` is
sorted insertion, `heappop` removes the head, `nsmallest(1, key=_small_key)` is the
first live entry (tombstones have key `[inf, inf]`), `nlargest(1, key=_large_key)` the
last live entry, `nsmallest(len)` the whole sorted list.

Priorities are `Int` (the harness uses floats k/8, which are order-isomorphic).
Core Lean only — no Mathlib import (this file is loaded by the line-protocol driver).
-/
namespace Sc3Verif.C09

structure Entry where
  prio : Int
  count : Nat
  task : Option Nat        -- `none` = `_REMOVED`
deriving Repr, DecidableEq

/-- Python list comparison of `[prio, count, _]` entries (count is unique). -/
def Entry.keyLt (a b : Entry) : Bool :=
  a.prio < b.prio || (a.prio == b.prio && a.count < b.count)

def Entry.live (e : Entry) : Bool := e.task.isSome

structure TQ where
  queue : List Entry        -- `_queue`, sorted by (prio, count): the heap abstraction
  finder : List Nat         -- keys of `_entry_finder`
  counter : Nat             -- next value of `_counter`
  removed : Int             -- `_removed_counter`
deriving Repr

def TQ.init : TQ := { queue := [], finder := [], counter := 0, removed := 0 }

/-- `heapq.heappush` on the sorted-list abstraction. -/
def insertSorted (e : Entry) : List Entry → List Entry
  | [] => [e]
  | x :: xs => if e.keyLt x then e :: x :: xs else x :: insertSorted e xs

/-- `entry[-1] = _REMOVED` for the entry the finder points at (the live entry of `t`). -/
def tombstone (t : Nat) (q : List Entry) : List Entry :=
  q.map fun e => if e.task = some t then { e with task := none } else e

def TQ.remove (q : TQ) (t : Nat) : TQ :=
  if t ∈ q.finder then
    { q with finder := q.finder.filter (· != t)
             queue := tombstone t q.queue
             removed := q.removed + 1 }
  else q

def TQ.add (q : TQ) (p : Int) (t : Nat) : TQ :=
  let q := if t ∈ q.finder then q.remove t else q
  let e : Entry := { prio := p, count := q.counter, task := some t }
  { q with counter := q.counter + 1
           finder := t :: q.finder
           queue := insertSorted e q.queue }

/-- The `while self._queue:` loop of `pop`: returns remaining heap, removed counter,
    finder and the popped live entry if any. -/
def popLoop : List Entry → Int → (List Entry × Int × Option (Int × Nat))
  | [], r => ([], r, none)
  | e :: es, r =>
    match e.task with
    | some t => (es, r, some (e.prio, t))
    | none => popLoop es (r - 1)

def TQ.pop (q : TQ) : TQ × Option (Int × Nat) :=
  match popLoop q.queue q.removed with
  | (es, r, some (p, t)) =>
      ({ q with queue := es, removed := r, finder := q.finder.filter (· != t) }, some (p, t))
  | (es, r, none) => ({ q with queue := es, removed := r }, none)

/-- `(prio, task)` of a selected entry; `none` (KeyError) if nothing live was selected. -/
def entryItem (oe : Option Entry) : Option (Int × Nat) :=
  oe.bind fun e => e.task.map fun t => (e.prio, t)

def TQ.peekSmallest (q : TQ) : Option (Int × Nat) :=
  entryItem (q.queue.find? Entry.live)

def TQ.peekLargest (q : TQ) : Option (Int × Nat) :=
  entryItem (q.queue.reverse.find? Entry.live)

def TQ.empty (q : TQ) : Bool := (q.queue.length : Int) - q.removed == 0

def TQ.iter (q : TQ) : List (Int × Nat) :=
  q.queue.filterMap fun e => e.task.map fun t => (e.prio, t)

inductive Op where
  | add (p : Int) (t : Nat)
  | remove (t : Nat)
  | pop
  | peekS
  | peekL
  | empty
  | clear
  | iter
deriving Repr, DecidableEq

inductive Out where
  | unit
  | item (r : Option (Int × Nat))      -- `none` = KeyError
  | bool (b : Bool)
  | items (l : List (Int × Nat))
deriving Repr, DecidableEq

def TQ.step (q : TQ) : Op → TQ × Out
  | .add p t => (q.add p t, .unit)
  | .remove t => (q.remove t, .unit)
  | .pop => let (q', r) := q.pop; (q', .item r)
  | .peekS => (q, .item q.peekSmallest)
  | .peekL => (q, .item q.peekLargest)
  | .empty => (q, .bool q.empty)
  | .clear => (TQ.init, .unit)
  | .iter => (q, .items q.iter)

def TQ.run (q : TQ) : List Op → TQ × List Out
  | [] => (q, [])
  | op :: ops =>
    let (q', o) := q.step op
    let (q'', os) := q'.run ops
    (q'', o :: os)

end Sc3Verif.C09

namespace Sc3Verif.C09

/-- `Process._shutdown`: `while not q.empty(): q.pop()[1]()` where a running exit action may
    itself add, move (re-add) or remove pending actions.  `beh t` = the queue operations action
    `t` performs when called.  Returns the order in which actions ran.  `fuel` bounds the loop
    (an action that keeps re-adding itself would never terminate). -/
def TQ.drain (beh : Nat → List Op) : Nat → TQ → List Nat
  | 0, _ => []
  | fuel + 1, q =>
    if q.empty then []
    else
      match q.pop with
      | (q', some (_, t)) => t :: TQ.drain beh fuel (q'.run (beh t)).1
      | (_, none) => []          -- pop raised KeyError: the loop dies

end Sc3Verif.C09
