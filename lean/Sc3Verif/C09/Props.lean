/-
C09 — Time-ordered collections are stable priority queues under any history.

Property theorems only (helper lemmas are in `Lemmas.lean`).  All statements quantify
over every finite operation history `ops : List Op` (add, re-add, remove, pop,
peek smallest/largest, empty, clear, iteration) and every priority/task value.
-/
import Sc3Verif.C09.Lemmas
namespace Sc3Verif.C09

/-- States the real queue can be in: reached from the empty queue by any history. -/
def Reachable (q : TQ) : Prop := ∃ ops : List Op, q = (TQ.init.run ops).1

theorem reachable_inv {q : TQ} (h : Reachable q) : Inv q := by
  obtain ⟨ops, rfl⟩ := h; exact (run_refines inv_init ops).2.2

/-- MAIN: for every history the outputs of the tombstone/heap model are those of the
    sorted-list specification, and the final contents agree. -/
theorem refines_sorted_list (ops : List Op) :
    (TQ.init.run ops).2 = (SQ.run [] ops).2 ∧ (TQ.init.run ops).1.abs = (SQ.run [] ops).1 := by
  have := run_refines inv_init ops
  exact ⟨this.1, this.2.1⟩

/-- Same, from any reachable state (so: for every continuation of every history). -/
theorem refines_from_reachable {q : TQ} (h : Reachable q) (ops : List Op) :
    (q.run ops).2 = (SQ.run q.abs ops).2 ∧ (q.run ops).1.abs = (SQ.run q.abs ops).1 :=
  let r := run_refines (reachable_inv h) ops; ⟨r.1, r.2.1⟩

/-- Contents are always sorted by time (non-decreasing). -/
theorem iter_is_sorted_contents {q : TQ} (h : Reachable q) : SQ.Sorted q.iter :=
  iterL_sorted (reachable_inv h).sorted

/-- Each item is in the queue at most once. -/
theorem each_at_most_once {q : TQ} (h : Reachable q) : (q.iter.map Prod.snd).Nodup :=
  (reachable_inv h).nodup

/-- pop returns the first element of the sorted contents and leaves the rest. -/
theorem pop_is_head {q : TQ} (h : Reachable q) :
    q.pop.2 = q.iter.head? ∧ q.pop.1.iter = q.iter.tail :=
  let r := pop_spec (reachable_inv h); ⟨r.1, r.2.1⟩

/-- Whatever pop returns is not later than anything still in the queue. -/
theorem pop_nondecreasing {q : TQ} (h : Reachable q) (p : Int) (t : Nat)
    (hp : q.pop.2 = some (p, t)) : ∀ y ∈ q.pop.1.iter, p ≤ y.1 := by
  obtain ⟨h1, h2⟩ := pop_is_head h
  have hs := iter_is_sorted_contents h
  rw [h1] at hp; rw [h2]
  cases hq : q.iter with
  | nil => rw [hq] at hp; simp at hp
  | cons a l =>
    rw [hq] at hp hs
    have ha : a = (p, t) := by simpa using hp
    subst ha
    intro y hy
    exact (List.pairwise_cons.mp hs).1 y hy

/-- Two pops in a row come out in non-decreasing time. -/
theorem two_pops_ordered {q : TQ} (h : Reachable q) (p₁ p₂ : Int) (t₁ t₂ : Nat)
    (h₁ : q.pop.2 = some (p₁, t₁)) (h₂ : q.pop.1.pop.2 = some (p₂, t₂)) : p₁ ≤ p₂ := by
  have hr : Reachable q.pop.1 := by
    obtain ⟨ops, rfl⟩ := h
    refine ⟨ops ++ [Op.pop], ?_⟩
    have : ∀ (q0 : TQ) (l : List Op), (q0.run (l ++ [Op.pop])).1 = ((q0.run l).1.pop).1 := by
      intro q0 l
      induction l generalizing q0 with
      | nil => simp [TQ.run, TQ.step]
      | cons o l ih => simp only [List.cons_append, TQ.run]; exact ih _
    rw [this]
  have := pop_nondecreasing h p₁ t₁ h₁
  obtain ⟨h1', _⟩ := pop_is_head hr
  rw [h1'] at h₂
  apply this (p₂, t₂)
  exact List.mem_of_mem_head? h₂

/-- Insertion point of `add`: behind every entry with time `≤ p` (FIFO among equals),
    before every later one; the other entries keep their relative order. -/
theorem fifo_among_equal (p : Int) (t : Nat) (s : SQ) (hs : SQ.Sorted s) :
    ∃ a b, SQ.insert p t s = a ++ (p, t) :: b ∧ s = a ++ b ∧
      (∀ y ∈ a, y.1 ≤ p) ∧ (∀ y ∈ b, p < y.1) := by
  induction s with
  | nil => exact ⟨[], [], rfl, rfl, by simp, by simp⟩
  | cons x xs ih =>
    have hc := List.pairwise_cons.mp hs
    unfold SQ.insert; split
    · rename_i hlt
      refine ⟨[], x :: xs, rfl, rfl, by simp, ?_⟩
      intro y hy
      rcases List.mem_cons.mp hy with rfl | hy'
      · exact hlt
      · have := hc.1 y hy'; omega
    · rename_i hnlt
      obtain ⟨a, b, e1, e2, ha, hb⟩ := ih hc.2
      refine ⟨x :: a, b, by simp [e1], by simp [e2], ?_, hb⟩
      intro y hy
      rcases List.mem_cons.mp hy with rfl | hy'
      · omega
      · exact ha y hy'

/-- Re-adding moves the item to its new time as the most recent entry there: the new
    contents are the old ones without the item, with the item inserted FIFO-last. -/
theorem readd_moves_to_new_time_as_latest {q : TQ} (h : Reachable q) (p : Int) (t : Nat) :
    (q.add p t).iter = SQ.insert p t (SQ.erase t q.iter) :=
  abs_add (reachable_inv h) p t

/-- Removing an item never disturbs the others (same items, same order). -/
theorem remove_preserves_others {q : TQ} (h : Reachable q) (t : Nat) :
    (q.remove t).iter = q.iter.filter (fun x => x.2 != t) :=
  abs_remove (reachable_inv h) t

theorem empty_iff_no_live {q : TQ} (h : Reachable q) : q.empty = q.iter.isEmpty :=
  empty_spec (reachable_inv h)

theorem peek_smallest_is_next_pop {q : TQ} (h : Reachable q) : q.peekSmallest = q.pop.2 := by
  rw [(pop_is_head h).1]; exact peekSmallest_spec q

/-- The "latest" entry is the last of the sorted contents: maximal time, most recent
    among those (used for score duration). -/
theorem peek_largest_is_max_latest {q : TQ} (h : Reachable q) :
    q.peekLargest = q.iter.getLast? ∧
    ∀ p t, q.peekLargest = some (p, t) → ∀ y ∈ q.iter, y.1 ≤ p := by
  refine ⟨peekLargest_spec q, ?_⟩
  intro p t hp y hy
  rw [peekLargest_spec] at hp
  have hs := iter_is_sorted_contents h
  change q.abs.getLast? = some (p, t) at hp
  change y ∈ q.abs at hy
  change SQ.Sorted q.abs at hs
  generalize q.abs = s at hp hy hs
  obtain ⟨l, rfl⟩ : ∃ l, s = l ++ [(p, t)] := by
    rw [List.getLast?_eq_some_iff] at hp; exact hp
  rcases List.mem_append.mp hy with hy' | hy'
  · unfold SQ.Sorted at hs
    rw [List.pairwise_append] at hs
    exact hs.2.2 y hy' (p, t) (by simp)
  · simp at hy'; subst hy'; exact Int.le_refl _

theorem removed_counter_counts_tombstones {q : TQ} (h : Reachable q) :
    q.removed = ((q.queue.filter (fun e => !e.live)).length : Int) :=
  (reachable_inv h).removed

/-- Exit actions (`Process._shutdown`): draining the queue while the running actions add,
    move or remove pending actions executes, for every behaviour of the actions and every
    reachable queue, exactly what the sorted-list specification executes: always the earliest
    (FIFO among equals) action currently registered, including those registered or moved
    during the shutdown; nothing registered is skipped, nothing runs twice unless re-added. -/
theorem drain_refines (beh : Nat → List Op) (fuel : Nat) {q : TQ} (h : Reachable q) :
    q.drain beh fuel = SQ.drain beh fuel q.iter :=
  drain_refines' beh fuel (reachable_inv h)

/-! Non-vacuity: a concrete history with ties, a re-add, a remove and tombstones. -/
def exampleOps : List Op :=
  [.add 5 0, .add 3 1, .add 3 2, .add 5 1, .remove 2, .add 3 3, .peekS, .peekL, .iter,
   .pop, .pop, .empty, .pop, .pop, .empty]

example : (TQ.init.run exampleOps).2 =
    [.unit, .unit, .unit, .unit, .unit, .unit, .item (some (3, 3)), .item (some (5, 1)),
     .items [(3, 3), (5, 0), (5, 1)], .item (some (3, 3)), .item (some (5, 0)), .bool false,
     .item (some (5, 1)), .item none, .bool true] := by decide
example : Reachable (TQ.init.run exampleOps).1 := ⟨exampleOps, rfl⟩
/-- action 0 registers action 3 ahead of the pending action 1 and moves action 2 to the end -/
example : (TQ.init.run [.add 1 0, .add 2 1, .add 2 2]).1.drain
    (fun t => if t = 0 then [.add 1 3, .add 5 2] else []) 10 = [0, 3, 1, 2] := by decide

end Sc3Verif.C09
