/-
C09 — Time-ordered collections are stable priority queues under any history.

Property theorems only (helper lemmas are in `Lemmas.lean`).  All statements quantify
over every finite operation history `ops : List Op` (add, re-add, remove, pop,
peek smallest/largest, empty, clear, iteration) and every priority/task value.
-/
import Sc3Verif.C09.Lemmas
import Sc3Verif.C09.UsersLemmas
namespace Sc3Verif.C09

/-- States the real queue can be in: reached from the empty queue by any history. -/
def Reachable (q : TQ) : Prop := ∃ ops : List Op, q = (TQ.init.run ops).1

theorem reachable_inv {q : TQ} (h : Reachable q) : Inv q := by
  obtain ⟨ops, rfl⟩ := h; exact (run_refines inv_init ops).2.2

/-- MAIN: for every history the outputs of the tombstone/heap model are those of the
    sorted-list specification, and the final contents agree. -/
theorem refines_sorted_list (ops : List Op) :
    (TQ.init.run ops).2 = (SQ.run [] ops).2 ∧ (TQ.init.run ops).1.abs = (SQ.run [] ops).1 := by
  have := run_refines inv_init ops
  exact ⟨this.1, this.2.1⟩

/-- Same, from any reachable state (so: for every continuation of every history). -/
theorem refines_from_reachable {q : TQ} (h : Reachable q) (ops : List Op) :
    (q.run ops).2 = (SQ.run q.abs ops).2 ∧ (q.run ops).1.abs = (SQ.run q.abs ops).1 :=
  let r := run_refines (reachable_inv h) ops; ⟨r.1, r.2.1⟩

/-- Contents are always sorted by time (non-decreasing). -/
theorem iter_is_sorted_contents {q : TQ} (h : Reachable q) : SQ.Sorted q.iter :=
  iterL_sorted (reachable_inv h).sorted

/-- Each item is in the queue at most once. -/
theorem each_at_most_once {q : TQ} (h : Reachable q) : (q.iter.map Prod.snd).Nodup :=
  (reachable_inv h).nodup

/-- pop returns the first element of the sorted contents and leaves the rest. -/
theorem pop_is_head {q : TQ} (h : Reachable q) :
    q.pop.2 = q.iter.head? ∧ q.pop.1.iter = q.iter.tail :=
  let r := pop_spec (reachable_inv h); ⟨r.1, r.2.1⟩

/-- Whatever pop returns is not later than anything still in the queue. -/
theorem pop_nondecreasing {q : TQ} (h : Reachable q) (p : Int) (t : Nat)
    (hp : q.pop.2 = some (p, t)) : ∀ y ∈ q.pop.1.iter, p ≤ y.1 := by
  obtain ⟨h1, h2⟩ := pop_is_head h
  have hs := iter_is_sorted_contents h
  rw [h1] at hp; rw [h2]
  cases hq : q.iter with
  | nil => rw [hq] at hp; simp at hp
  | cons a l =>
    rw [hq] at hp hs
    have ha : a = (p, t) := by simpa using hp
    subst ha
    intro y hy
    exact (List.pairwise_cons.mp hs).1 y hy

/-- Two pops in a row come out in non-decreasing time. -/
theorem two_pops_ordered {q : TQ} (h : Reachable q) (p₁ p₂ : Int) (t₁ t₂ : Nat)
    (h₁ : q.pop.2 = some (p₁, t₁)) (h₂ : q.pop.1.pop.2 = some (p₂, t₂)) : p₁ ≤ p₂ := by
  have hr : Reachable q.pop.1 := by
    obtain ⟨ops, rfl⟩ := h
    refine ⟨ops ++ [Op.pop], ?_⟩
    have : ∀ (q0 : TQ) (l : List Op), (q0.run (l ++ [Op.pop])).1 = ((q0.run l).1.pop).1 := by
      intro q0 l
      induction l generalizing q0 with
      | nil => simp [TQ.run, TQ.step]
      | cons o l ih => simp only [List.cons_append, TQ.run]; exact ih _
    rw [this]
  have := pop_nondecreasing h p₁ t₁ h₁
  obtain ⟨h1', _⟩ := pop_is_head hr
  rw [h1'] at h₂
  apply this (p₂, t₂)
  exact List.mem_of_mem_head? h₂

/-- Insertion point of `add`: behind every entry with time `≤ p` (FIFO among equals),
    before every later one; the other entries keep their relative order. -/
theorem fifo_among_equal (p : Int) (t : Nat) (s : SQ) (hs : SQ.Sorted s) :
    ∃ a b, SQ.insert p t s = a ++ (p, t) :: b ∧ s = a ++ b ∧
      (∀ y ∈ a, y.1 ≤ p) ∧ (∀ y ∈ b, p < y.1) := by
  induction s with
  | nil => exact ⟨[], [], rfl, rfl, by simp, by simp⟩
  | cons x xs ih =>
    have hc := List.pairwise_cons.mp hs
    unfold SQ.insert; split
    · rename_i hlt
      refine ⟨[], x :: xs, rfl, rfl, by simp, ?_⟩
      intro y hy
      rcases List.mem_cons.mp hy with rfl | hy'
      · exact hlt
      · have := hc.1 y hy'; omega
    · rename_i hnlt
      obtain ⟨a, b, e1, e2, ha, hb⟩ := ih hc.2
      refine ⟨x :: a, b, by simp [e1], by simp [e2], ?_, hb⟩
      intro y hy
      rcases List.mem_cons.mp hy with rfl | hy'
      · omega
      · exact ha y hy'

/-- Re-adding moves the item to its new time as the most recent entry there: the new
    contents are the old ones without the item, with the item inserted FIFO-last. -/
theorem readd_moves_to_new_time_as_latest {q : TQ} (h : Reachable q) (p : Int) (t : Nat) :
    (q.add p t).iter = SQ.insert p t (SQ.erase t q.iter) :=
  abs_add (reachable_inv h) p t

/-- Removing an item never disturbs the others (same items, same order). -/
theorem remove_preserves_others {q : TQ} (h : Reachable q) (t : Nat) :
    (q.remove t).iter = q.iter.filter (fun x => x.2 != t) :=
  abs_remove (reachable_inv h) t

theorem empty_iff_no_live {q : TQ} (h : Reachable q) : q.empty = q.iter.isEmpty :=
  empty_spec (reachable_inv h)

theorem peek_smallest_is_next_pop {q : TQ} (h : Reachable q) : q.peekSmallest = q.pop.2 := by
  rw [(pop_is_head h).1]; exact peekSmallest_spec q

/-- The "latest" entry is the last of the sorted contents: maximal time, most recent
    among those (used for score duration). -/
theorem peek_largest_is_max_latest {q : TQ} (h : Reachable q) :
    q.peekLargest = q.iter.getLast? ∧
    ∀ p t, q.peekLargest = some (p, t) → ∀ y ∈ q.iter, y.1 ≤ p := by
  refine ⟨peekLargest_spec q, ?_⟩
  intro p t hp y hy
  rw [peekLargest_spec] at hp
  have hs := iter_is_sorted_contents h
  change q.abs.getLast? = some (p, t) at hp
  change y ∈ q.abs at hy
  change SQ.Sorted q.abs at hs
  generalize q.abs = s at hp hy hs
  obtain ⟨l, rfl⟩ : ∃ l, s = l ++ [(p, t)] := by
    rw [List.getLast?_eq_some_iff] at hp; exact hp
  rcases List.mem_append.mp hy with hy' | hy'
  · unfold SQ.Sorted at hs
    rw [List.pairwise_append] at hs
    exact hs.2.2 y hy' (p, t) (by simp)
  · simp at hy'; subst hy'; exact Int.le_refl _

theorem removed_counter_counts_tombstones {q : TQ} (h : Reachable q) :
    q.removed = ((q.queue.filter (fun e => !e.live)).length : Int) :=
  (reachable_inv h).removed

/-- Exit actions (`Process._shutdown`): draining the queue while the running actions add,
    move or remove pending actions executes, for every behaviour of the actions and every
    reachable queue, exactly what the sorted-list specification executes: always the earliest
    (FIFO among equals) action currently registered, including those registered or moved
    during the shutdown; nothing registered is skipped, nothing runs twice unless re-added. -/
theorem drain_refines (beh : Nat → List Op) (fuel : Nat) {q : TQ} (h : Reachable q) :
    q.drain beh fuel = SQ.drain beh fuel q.iter :=
  drain_refines' beh fuel (reachable_inv h)

/-! Non-vacuity: a concrete history with ties, a re-add, a remove and tombstones. -/
def exampleOps : List Op :=
  [.add 5 0, .add 3 1, .add 3 2, .add 5 1, .remove 2, .add 3 3, .peekS, .peekL, .iter,
   .pop, .pop, .empty, .pop, .pop, .empty]

example : (TQ.init.run exampleOps).2 =
    [.unit, .unit, .unit, .unit, .unit, .unit, .item (some (3, 3)), .item (some (5, 1)),
     .items [(3, 3), (5, 0), (5, 1)], .item (some (3, 3)), .item (some (5, 0)), .bool false,
     .item (some (5, 1)), .item none, .bool true] := by decide
example : Reachable (TQ.init.run exampleOps).1 := ⟨exampleOps, rfl⟩
/-- action 0 registers action 3 ahead of the pending action 1 and moves action 2 to the end -/
example : (TQ.init.run [.add 1 0, .add 2 1, .add 2 2]).1.drain
    (fun t => if t = 0 then [.add 1 3, .add 5 2] else []) 10 = [0, 3, 1, 2] := by decide

/-! ### users of the queue: the non-real-time scheduler (`ClockScheduler`) -/

/-- scheduler states reached from the empty scheduler by any history of `add` (a new or an
    already pending clock task), loop iterations of `run`, tempo changes (`retime`) -/
def CSReachable (k : Nat → Nat) (c : CS) : Prop := ∃ ops : List CSOp, c = (CS.init.run k ops).1

theorem cs_reachable_inv {k : Nat → Nat} {c : CS} (h : CSReachable k c) : CSInv k c := by
  obtain ⟨ops, rfl⟩ := h; exact (cs_run_refines (csinv_init k) ops).2.2

/-- MAIN (scheduler): for every history, queue + `_pending` dict behave as the sorted list in
    which adding a clock task first drops the entry of its (clock, task) key, and a tempo change
    re-inserts the tasks of the clock one after the other in queue order. -/
theorem scheduler_refines (k : Nat → Nat) (ops : List CSOp) :
    (CS.init.run k ops).2 = (KS.run k [] ops).2 ∧ (CS.init.run k ops).1.q.iter = (KS.run k [] ops).1 :=
  let r := cs_run_refines (csinv_init k) ops; ⟨r.1, r.2.1⟩

/-- the scheduler's queue is sorted by time and a task has one entry per clock -/
theorem scheduler_sorted_one_entry_per_key {k : Nat → Nat} {c : CS} (h : CSReachable k c) :
    SQ.Sorted c.q.iter ∧ ((c.q.iter.map Prod.snd).map k).Nodup :=
  ⟨iterL_sorted (cs_reachable_inv h).inv.sorted, csinv_keys_nodup (cs_reachable_inv h)⟩

/-- every loop iteration of `run` wakes the earliest entry (first in, first out among equals) -/
theorem scheduler_pop_is_head {k : Nat → Nat} {c : CS} (h : CSReachable k c) :
    (c.pop k).2 = c.q.iter.head? ∧ (c.pop k).1.q.iter = c.q.iter.tail :=
  let r := cs_pop_spec (cs_reachable_inv h); ⟨r.1, r.2.1⟩

/-- scheduling a task that is already pending on that clock (same key, another clock-task
    object) leaves exactly one entry for the key: the new one, at its time, latest among equals -/
theorem scheduler_add_replaces_key {k : Nat → Nat} {c : CS} (h : CSReachable k c) (time : Int) (ct : Nat) :
    (c.add k time ct).q.iter = SQ.insert time ct (c.q.iter.filter fun x => k x.2 != k ct) :=
  (cs_add_spec (cs_reachable_inv h) time ct).1

/-- A tempo change keeps the queue order of the re-timed tasks wherever the new times allow it:
    if `a` is before `b` and the new time of `a` is not later than that of `b` (in particular:
    equal new times, e.g. two tasks on the same beat), `a` is still before `b`. -/
theorem retime_keeps_queue_order {k : Nat → Nat} {c : CS} (h : CSReachable k c) (f : Nat → Option Int)
    (a b : Nat) (ta tb : Int) (hab : [a, b].Sublist (c.q.iter.map Prod.snd))
    (hfa : f a = some ta) (hfb : f b = some tb) (hle : ta ≤ tb) :
    [a, b].Sublist ((c.retime f).q.iter.map Prod.snd) := by
  have hi := cs_reachable_inv h
  have habs := (cs_retime_spec hi f).1
  show [a, b].Sublist (ids (c.retime f).q.abs)
  rw [habs]
  have hnd : (ids c.q.abs).Nodup := by have := hi.inv.nodup; rw [← TQ.abs_eq] at this; exact this
  exact retime_claim1 f hfa hfb hle c.q.abs c.q.abs hnd hab (iterL_sorted hi.inv.sorted)

/-- a tempo change loses and duplicates nothing -/
theorem retime_same_tasks {k : Nat → Nat} {c : CS} (h : CSReachable k c) (f : Nat → Option Int) (t : Nat) :
    t ∈ (c.retime f).q.iter.map Prod.snd ↔ t ∈ c.q.iter.map Prod.snd := by
  have hi := cs_reachable_inv h
  show t ∈ ids (c.retime f).q.abs ↔ t ∈ ids c.q.abs
  rw [(cs_retime_spec hi f).1]
  exact ids_retimeFold f c.q.abs c.q.abs (fun y hy => List.mem_map_of_mem hy) t

/-! ### users of the queue: score entries (`OscScore`) -/

/-- what `finish` lists is the stable insertion of the bundles in the order they were added -/
theorem score_listing (times : List Int) :
    (Score.init.addAll times).listing = stableByTime times.zipIdx :=
  (score_addAll_spec times ⟨inv_init, by intro t ht; simp [Score.init, TQ.init, TQ.abs, TQ.iter, ids] at ht⟩).1

/-- non-decreasing time, and every added bundle exactly once (also byte-identical ones: the
    entries are the objects, not their contents) -/
theorem score_sorted_each_once (times : List Int) :
    SQ.Sorted (Score.init.addAll times).listing ∧ (Score.init.addAll times).listing.Perm times.zipIdx := by
  rw [score_listing]
  refine ⟨insertAll_sorted _ _ List.Pairwise.nil, ?_⟩
  have := insertAll_perm times.zipIdx []
  simpa [stableByTime] using this

/-- first in, first out: a bundle added before another one with a time not later is listed first -/
theorem score_fifo (times : List Int) (x y : Int × Nat) (h : [x, y].Sublist times.zipIdx)
    (hle : x.1 ≤ y.1) : [x.2, y.2].Sublist ((Score.init.addAll times).listing.map Prod.snd) := by
  rw [score_listing]
  exact insertAll_fifo _ [] List.Pairwise.nil x y h hle

/-! ### users of the queue: parallel pattern streams (`Ppar`) -/

/-- For every number of children and every script of deltas (zero deltas and ties included) the merge
    `Ppar.__embed__` performs through the heap queue is the merge through the sorted list: the next event
    always comes from the child at the head (earliest time, first re-queued first among equal times), a
    child that yielded is re-queued as the latest of its new time, an ended child costs one silent event
    up to the next pending time. -/
theorem ppar_refines (rem : List (List Int)) : ppar rem = pparS rem := by
  obtain ⟨h1, h2⟩ := pparInit_refines rem.length
  unfold ppar pparS
  rw [pparLoop_refines _ _ h2]
  simp only [h1]

/-- three children at the same times, the first with zero deltas: first in, first out among equals
    (`a0 b0 c0 a1 a2 …`, never `a0 a1 a2 b0 c0`) -/
example : (ppar [[0, 0, 1], [1], [1]]).map Prod.fst
    = [some 0, some 1, some 2, some 0, some 0, none, none] := by decide

/-! Non-vacuity (scheduler): tasks 0,1 of clock key 0/1 on one beat, task 0 re-scheduled by a new
    clock task 2 with the same key, then a tempo change. -/
def exKey (ct : Nat) : Nat := if ct = 2 then 0 else ct
def exCSOps : List CSOp := [.add 4 0, .add 4 1, .add 4 3, .add 4 2, .iter, .retime [(1, 2), (2, 2), (3, 2)], .iter, .pop]
example : (CS.init.run exKey exCSOps).2 =
    [.unit, .unit, .unit, .unit, .items [(4, 1), (4, 3), (4, 2)], .unit, .items [(2, 1), (2, 3), (2, 2)],
     .item (some (2, 1))] := by decide
example : CSReachable exKey (CS.init.run exKey exCSOps).1 := ⟨exCSOps, rfl⟩
example : (Score.init.addAll [2, 1, 2, 1]).listing = [(1, 1), (1, 3), (2, 0), (2, 2)] := by decide

end Sc3Verif.C09

