/-
C09 — the abstract specification: a stable priority queue is a list of (prio, task)
kept sorted by prio, FIFO among equal prios, with no task twice.
Short enough to read in a minute; everything the property says is visible here.
-/
import Sc3Verif.C09.Model
namespace Sc3Verif.C09

abbrev SQ := List (Int × Nat)

/-- Insert behind every entry whose prio is `≤ p` (so: latest among equals). -/
def SQ.insert (p : Int) (t : Nat) : SQ → SQ
  | [] => [(p, t)]
  | x :: xs => if p < x.1 then (p, t) :: x :: xs else x :: SQ.insert p t xs

def SQ.erase (t : Nat) (s : SQ) : SQ := s.filter fun x => x.2 != t

def SQ.step (s : SQ) : Op → SQ × Out
  | .add p t => (SQ.insert p t (SQ.erase t s), .unit)
  | .remove t => (SQ.erase t s, .unit)
  | .pop => (s.tail, .item s.head?)
  | .peekS => (s, .item s.head?)
  | .peekL => (s, .item s.getLast?)
  | .empty => (s, .bool s.isEmpty)
  | .clear => ([], .unit)
  | .iter => (s, .items s)

def SQ.run (s : SQ) : List Op → SQ × List Out
  | [] => (s, [])
  | op :: ops =>
    let (s', o) := SQ.step s op
    let (s'', os) := SQ.run s' ops
    (s'', o :: os)

/-- Abstraction map: the live entries of the heap in heap order. -/
def TQ.abs (q : TQ) : SQ := q.iter

end Sc3Verif.C09

namespace Sc3Verif.C09

/-- the same drain on the specification: always run the head, apply what it does, repeat -/
def SQ.drain (beh : Nat → List Op) : Nat → SQ → List Nat
  | 0, _ => []
  | fuel + 1, s =>
    match s with
    | [] => []
    | (_, t) :: rest => t :: SQ.drain beh fuel (SQ.run rest (beh t)).1

end Sc3Verif.C09
