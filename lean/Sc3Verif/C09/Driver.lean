/-
C09 line-protocol driver:  `lake env lean --run Sc3Verif/C09/Driver.lean < ops`
One op per line, one output line per op.  `reset` starts a new history.
-/
import Sc3Verif.C09.Model
import Sc3Verif.C09.Users
open Sc3Verif.C09

def fmtItem : Option (Int × Nat) → String
  | none => "KeyError"
  | some (p, t) => s!"({p},{t})"

def fmtOut : Out → String
  | .unit => "ok"
  | .item r => fmtItem r
  | .bool b => if b then "True" else "False"
  | .items l => "[" ++ ",".intercalate (l.map fun (p, t) => s!"({p},{t})") ++ "]"

def parseOp (line : String) : Option Op :=
  match (line.trimAscii.toString.splitOn " ").filter (· ≠ "") with
  | ["add", p, t] => do some (.add (← p.toInt?) (← t.toNat?))
  | ["remove", t] => do some (.remove (← t.toNat?))
  | ["pop"] => some .pop
  | ["peekS"] => some .peekS
  | ["peekL"] => some .peekL
  | ["empty"] => some .empty
  | ["clear"] => some .clear
  | ["iter"] => some .iter
  | _ => none

/-- `drain <t>:<op>;<op>… <t>:…` — shutdown with the given behaviours; ops `a.p.t` (add) `r.t` (remove) -/
def parseBeh (words : List String) : Nat → List Op := fun t =>
  match words.find? (fun w => (w.splitOn ":").head? == some (toString t)) with
  | none => []
  | some w =>
    match w.splitOn ":" with
    | [_, ops] => (ops.splitOn ";").filterMap fun o =>
        match o.splitOn "." with
        | ["a", p, u] => do some (Op.add (← p.toInt?) (← u.toNat?))
        | ["r", u] => u.toNat?.map Op.remove
        | _ => none
    | _ => []

/-! ### scheduler wrapper: clock tasks (beats, clock, task), stub clocks secs = offset + beats*scale -/

structure Sch where
  cs : CS := CS.init
  cts : Array (Int × Nat × Nat) := #[]          -- ct id ↦ (beats, clock, task)
  clocks : Array (Int × Int) := #[]             -- clock ↦ (scale, offset)
  wakes : Array Nat := #[]                      -- task ↦ number of wake-ups so far

def Sch.key (s : Sch) (ct : Nat) : Nat :=
  match s.cts[ct]? with
  | some (_, c, t) => c * 1000 + t
  | none => 999999

def Sch.secs (s : Sch) (clock : Nat) (beats : Int) : Int :=
  match s.clocks[clock]? with
  | some (scale, off) => off + beats * scale
  | none => beats

def Sch.setClock (s : Sch) (c : Nat) (scale off : Int) : Sch :=
  let cl := if s.clocks.size ≤ c then s.clocks ++ Array.replicate (c + 1 - s.clocks.size) (1, 0) else s.clocks
  { s with clocks := cl.set! c (scale, off) }

/-- `ClockTask(beats, clock, task, scheduler)` -/
def Sch.sched (s : Sch) (beats : Int) (clock task : Nat) : Sch :=
  let ct := s.cts.size
  let s := { s with cts := s.cts.push (beats, clock, task) }
  { s with cs := s.cs.add s.key (s.secs clock beats) ct }

/-- tempo change of a stub clock followed by `scheduler.retime(clock)` -/
def Sch.tempo (s : Sch) (clock : Nat) (scale off : Int) : Sch :=
  let s := s.setClock clock scale off
  let f := fun ct => match s.cts[ct]? with
    | some (b, c, _) => if c = clock then some (s.secs clock b) else none
    | none => none
  { s with cs := s.cs.retime f }

inductive BOp where
  | sched (beats : Int) (clock task : Nat)
  | tempo (clock : Nat) (scale off : Int)

/-- behaviours: (task, wake index) ↦ (delta?, ops) -/
abbrev Beh := List ((Nat × Nat) × (Option Int × List BOp))

def parseBOp (w : String) : Option BOp :=
  match w.splitOn "." with
  | ["s", b, c, t] => do some (.sched (← b.toInt?) (← c.toNat?) (← t.toNat?))
  | ["t", c, sc, o] => do some (.tempo (← c.toNat?) (← sc.toInt?) (← o.toInt?))
  | _ => none

def parseBehS (words : List String) : Beh :=
  words.filterMap fun w =>
    match w.splitOn ":" with
    | [t, i, d, ops] => do
      let t ← t.toNat?; let i ← i.toNat?
      let d := d.toInt?
      some ((t, i), (d, (ops.splitOn ";").filterMap parseBOp))
    | _ => none

/-- `ClockScheduler.run` with `ClockTask._wakeup` -/
def Sch.run (beh : Beh) : Nat → Sch → List (Int × Nat) → Sch × List (Int × Nat)
  | 0, s, acc => (s, acc)
  | fuel + 1, s, acc =>
    if s.cs.q.empty then (s, acc)
    else
      let (cs', r) := s.cs.pop s.key
      match r with
      | none => ({ s with cs := cs' }, acc)
      | some (time, ct) =>
        let s := { s with cs := cs' }
        match s.cts[ct]? with
        | none => (s, acc)
        | some (beats, clock, task) =>
          let n := (s.wakes[task]?).getD 0
          let wk := if s.wakes.size ≤ task then s.wakes ++ Array.replicate (task + 1 - s.wakes.size) 0 else s.wakes
          let s := { s with wakes := wk.set! task (n + 1) }
          let (delta, ops) := ((beh.find? fun e => e.1 == (task, n)).map Prod.snd).getD (none, [])
          let s := ops.foldl (fun s op => match op with
            | .sched b c t => s.sched b c t
            | .tempo c sc o => s.tempo c sc o) s
          let s := match delta with
            | some d =>
              let b' := beats + d
              let s := { s with cts := s.cts.set! ct (b', clock, task) }
              { s with cs := s.cs.add s.key (s.secs clock b') ct }
            | none => s
          Sch.run beh fuel s (acc ++ [(time, ct)])

def fmtItems (l : List (Int × Nat)) : String :=
  "[" ++ ",".intercalate (l.map fun (p, t) => s!"({p},{t})") ++ "]"

def schLine (s : Sch) (words : List String) : Sch × String :=
  match words with
  | ["cs-clock", c, sc, o] =>
    match c.toNat?, sc.toInt?, o.toInt? with
    | some c, some sc, some o => (s.setClock c sc o, "ok")
    | _, _, _ => (s, "bad-op")
  | ["cs-sched", b, c, t] =>
    match b.toInt?, c.toNat?, t.toNat? with
    | some b, some c, some t => (s.sched b c t, "ok")
    | _, _, _ => (s, "bad-op")
  | ["cs-tempo", c, sc, o] =>
    match c.toNat?, sc.toInt?, o.toInt? with
    | some c, some sc, some o => (s.tempo c sc o, "ok")
    | _, _, _ => (s, "bad-op")
  | ["cs-iter"] => (s, fmtItems s.cs.q.iter)
  | "cs-run" :: rest =>
    let (s', woke) := Sch.run (parseBehS rest) 400 s []
    (s', "woke " ++ fmtItems woke)
  | _ => (s, "bad-op")

partial def loop (h : IO.FS.Stream) (out : IO.FS.Stream) (q : TQ) (sch : Sch := {}) : IO Unit := do
  let line ← h.getLine
  if line.isEmpty then return ()
  if line.trimAscii.toString == "reset" then
    out.putStrLn "reset"
    loop h out TQ.init {}
  else if line.startsWith "cs-" then
    let (sch', o) := schLine sch ((line.trimAscii.toString.splitOn " ").filter (· ≠ ""))
    out.putStrLn o
    loop h out q sch'
  else if line.startsWith "ppar" then
    let w := ((line.trimAscii.toString.splitOn " ").filter (· ≠ "")).drop 1
    let rem := w.map fun ch => if ch == "-" then [] else (ch.splitOn ",").filterMap String.toInt?
    let evs := ppar rem
    out.putStrLn ("merge " ++ " ".intercalate (evs.map fun e =>
      (match e.1 with | some c => toString c | none => "r") ++ ":" ++ toString e.2))
    loop h out TQ.init {}
  else if line.startsWith "score" then
    let times := ((line.trimAscii.toString.splitOn " ").filter (· ≠ "")).drop 1 |>.filterMap String.toInt?
    out.putStrLn ("listing " ++ fmtItems (Score.init.addAll times).listing)
    loop h out TQ.init {}
  else if line.startsWith "drain" then
    let words := ((line.trimAscii.toString.splitOn " ").filter (· ≠ "")).drop 1
    let order := q.drain (parseBeh words) 200
    out.putStrLn ("ran " ++ " ".intercalate (order.map toString))
    loop h out TQ.init
  else
    match parseOp line with
    | none => out.putStrLn "bad-op"; loop h out q
    | some op =>
      let (q', o) := q.step op
      out.putStrLn (fmtOut o)
      loop h out q'

def main : IO Unit := do
  loop (← IO.getStdin) (← IO.getStdout) TQ.init
