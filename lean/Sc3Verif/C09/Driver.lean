/-
C09 line-protocol driver:  `lake env lean --run Sc3Verif/C09/Driver.lean < ops`
One op per line, one output line per op.  `reset` starts a new history.
-/
import Sc3Verif.C09.Model
open Sc3Verif.C09

def fmtItem : Option (Int × Nat) → String
  | none => "KeyError"
  | some (p, t) => s!"({p},{t})"

def fmtOut : Out → String
  | .unit => "ok"
  | .item r => fmtItem r
  | .bool b => if b then "True" else "False"
  | .items l => "[" ++ ",".intercalate (l.map fun (p, t) => s!"({p},{t})") ++ "]"

def parseOp (line : String) : Option Op :=
  match (line.trimAscii.toString.splitOn " ").filter (· ≠ "") with
  | ["add", p, t] => do some (.add (← p.toInt?) (← t.toNat?))
  | ["remove", t] => do some (.remove (← t.toNat?))
  | ["pop"] => some .pop
  | ["peekS"] => some .peekS
  | ["peekL"] => some .peekL
  | ["empty"] => some .empty
  | ["clear"] => some .clear
  | ["iter"] => some .iter
  | _ => none

partial def loop (h : IO.FS.Stream) (out : IO.FS.Stream) (q : TQ) : IO Unit := do
  let line ← h.getLine
  if line.isEmpty then return ()
  if line.trimAscii.toString == "reset" then
    out.putStrLn "reset"
    loop h out TQ.init
  else
    match parseOp line with
    | none => out.putStrLn "bad-op"; loop h out q
    | some op =>
      let (q', o) := q.step op
      out.putStrLn (fmtOut o)
      loop h out q'

def main : IO Unit := do
  loop (← IO.getStdin) (← IO.getStdout) TQ.init
