/-
C09 line-protocol driver:  `lake env lean --run Sc3Verif/C09/Driver.lean < ops`
One op per line, one output line per op.  `reset` starts a new history.
-/
import Sc3Verif.C09.Model
open Sc3Verif.C09

def fmtItem : Option (Int × Nat) → String
  | none => "KeyError"
  | some (p, t) => s!"({p},{t})"

def fmtOut : Out → String
  | .unit => "ok"
  | .item r => fmtItem r
  | .bool b => if b then "True" else "False"
  | .items l => "[" ++ ",".intercalate (l.map fun (p, t) => s!"({p},{t})") ++ "]"

def parseOp (line : String) : Option Op :=
  match (line.trimAscii.toString.splitOn " ").filter (· ≠ "") with
  | ["add", p, t] => do some (.add (← p.toInt?) (← t.toNat?))
  | ["remove", t] => do some (.remove (← t.toNat?))
  | ["pop"] => some .pop
  | ["peekS"] => some .peekS
  | ["peekL"] => some .peekL
  | ["empty"] => some .empty
  | ["clear"] => some .clear
  | ["iter"] => some .iter
  | _ => none

/-- `drain <t>:<op>;<op>… <t>:…` — shutdown with the given behaviours; ops `a.p.t` (add) `r.t` (remove) -/
def parseBeh (words : List String) : Nat → List Op := fun t =>
  match words.find? (fun w => (w.splitOn ":").head? == some (toString t)) with
  | none => []
  | some w =>
    match w.splitOn ":" with
    | [_, ops] => (ops.splitOn ";").filterMap fun o =>
        match o.splitOn "." with
        | ["a", p, u] => do some (Op.add (← p.toInt?) (← u.toNat?))
        | ["r", u] => u.toNat?.map Op.remove
        | _ => none
    | _ => []

partial def loop (h : IO.FS.Stream) (out : IO.FS.Stream) (q : TQ) : IO Unit := do
  let line ← h.getLine
  if line.isEmpty then return ()
  if line.trimAscii.toString == "reset" then
    out.putStrLn "reset"
    loop h out TQ.init
  else if line.startsWith "drain" then
    let words := ((line.trimAscii.toString.splitOn " ").filter (· ≠ "")).drop 1
    let order := q.drain (parseBeh words) 200
    out.putStrLn ("ran " ++ " ".intercalate (order.map toString))
    loop h out TQ.init
  else
    match parseOp line with
    | none => out.putStrLn "bad-op"; loop h out q
    | some op =>
      let (q', o) := q.step op
      out.putStrLn (fmtOut o)
      loop h out q'

def main : IO Unit := do
  loop (← IO.getStdin) (← IO.getStdout) TQ.init
