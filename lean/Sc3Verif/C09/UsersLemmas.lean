/-
C09 — helper lemmas for the users of the queue (ClockScheduler, OscScore).
-/
import Sc3Verif.C09.Lemmas
import Sc3Verif.C09.UsersSpec
import Mathlib.Data.List.Nodup
namespace Sc3Verif.C09

def ids (s : SQ) : List Nat := s.map Prod.snd

theorem bneT {a b : Nat} (h : a ≠ b) : (a != b) = true := by simpa using h
theorem bneF {a b : Nat} (h : a = b) : (a != b) = false := by simp [h]

/-! ### the pending dict -/

theorem lookup_delKey_same (key : Nat) (m : List (Nat × Nat)) : lookupKey key (delKey key m) = none := by
  induction m with
  | nil => rfl
  | cons e r ih =>
    unfold delKey at *
    by_cases h : e.1 = key
    · rw [List.filter_cons_of_neg (by simp [h])]; exact ih
    · rw [List.filter_cons_of_pos (by simp [h])]
      simp only [lookupKey, h, if_false]; exact ih

theorem lookup_delKey_other {key key' : Nat} (h : key' ≠ key) (m : List (Nat × Nat)) :
    lookupKey key' (delKey key m) = lookupKey key' m := by
  induction m with
  | nil => rfl
  | cons e r ih =>
    unfold delKey at *
    by_cases h1 : e.1 = key
    · have h2 : e.1 ≠ key' := fun h2 => h (by rw [← h2, h1])
      rw [List.filter_cons_of_neg (by simp [h1])]
      simp only [lookupKey, h2, if_false]; exact ih
    · rw [List.filter_cons_of_pos (by simp [h1])]
      by_cases h2 : e.1 = key'
      · simp only [lookupKey, h2, if_true]
      · simp only [lookupKey, h2, if_false]; exact ih

theorem lookup_setKey_same (key ct : Nat) (m : List (Nat × Nat)) :
    lookupKey key (setKey key ct m) = some ct := by
  simp [setKey, lookupKey]

theorem lookup_setKey_other {key key' : Nat} (h : key' ≠ key) (ct : Nat) (m : List (Nat × Nat)) :
    lookupKey key' (setKey key ct m) = lookupKey key' m := by
  have : key ≠ key' := fun h' => h h'.symm
  simp [setKey, lookupKey, this, lookup_delKey_other h]

/-! ### invariant of the scheduler -/

structure CSInv (k : Nat → Nat) (c : CS) : Prop where
  inv : Inv c.q
  /-- every queued clock task is the pending one of its key -/
  pend : ∀ x ∈ c.q.abs, lookupKey (k x.2) c.pending = some x.2
  /-- the dict maps a key to a clock task of that key -/
  keyOK : ∀ key v, lookupKey key c.pending = some v → k v = key

theorem csinv_init (k : Nat → Nat) : CSInv k CS.init :=
  ⟨inv_init, by intro x hx; simp [CS.init, TQ.init, TQ.abs, TQ.iter] at hx, by intro key v h; simp [CS.init, lookupKey] at h⟩

theorem mem_erase_iff (t : Nat) (s : SQ) (y : Int × Nat) : y ∈ SQ.erase t s ↔ y ∈ s ∧ y.2 ≠ t := by
  simp [SQ.erase]

theorem mem_eraseKey_iff (k : Nat → Nat) (key : Nat) (s : SQ) (y : Int × Nat) :
    y ∈ KS.eraseKey k key s ↔ y ∈ s ∧ k y.2 ≠ key := by
  simp [KS.eraseKey]

/-- under the invariant, dropping the previous clock task and this one is dropping the key -/
theorem erase_is_eraseKey {k : Nat → Nat} {c : CS} (h : CSInv k c) (ct : Nat) :
    (match lookupKey (k ct) c.pending with
      | some prev => if prev != ct then SQ.erase ct (SQ.erase prev c.q.abs) else SQ.erase ct c.q.abs
      | none => SQ.erase ct c.q.abs) = KS.eraseKey k (k ct) c.q.abs := by
  have key : ∀ x ∈ c.q.abs, k x.2 = k ct → lookupKey (k ct) c.pending = some x.2 := by
    intro x hx hk; rw [← hk]; exact h.pend x hx
  cases hl : lookupKey (k ct) c.pending with
  | none =>
    simp only [SQ.erase, KS.eraseKey]
    apply List.filter_congr
    intro x hx
    have h1 : k x.2 ≠ k ct := fun hk => by have := key x hx hk; rw [hl] at this; cases this
    have h2 : x.2 ≠ ct := fun he => h1 (by rw [he])
    rw [bneT h1, bneT h2]
  | some prev =>
    have hkp : k prev = k ct := h.keyOK _ _ hl
    by_cases hp : prev = ct
    · subst hp
      simp only [bne_self_eq_false, Bool.false_eq_true, if_false, SQ.erase, KS.eraseKey]
      apply List.filter_congr
      intro x hx
      by_cases he : x.2 = prev
      · rw [bneF he, bneF (congrArg k he)]
      · have : k x.2 ≠ k prev := fun hk => by
          have := key x hx hk; rw [hl] at this; exact he (Option.some.inj this).symm
        rw [bneT he, bneT this]
    · have hne : (prev != ct) = true := by simpa using hp
      simp only [hne, if_true, SQ.erase, KS.eraseKey, List.filter_filter]
      apply List.filter_congr
      intro x hx
      by_cases hk : k x.2 = k ct
      · have := key x hx hk; rw [hl] at this
        have he : x.2 = prev := (Option.some.inj this).symm
        rw [bneF he, bneF hk, Bool.and_false]
      · have h1 : x.2 ≠ ct := fun he => hk (by rw [he])
        have h2 : x.2 ≠ prev := fun he => hk (by rw [he, hkp])
        rw [bneT h1, bneT h2, bneT hk]; rfl

theorem cs_add_spec {k : Nat → Nat} {c : CS} (h : CSInv k c) (time : Int) (ct : Nat) :
    (c.add k time ct).q.abs = KS.add k c.q.abs time ct ∧ CSInv k (c.add k time ct) := by
  have habs : (c.add k time ct).q.abs = KS.add k c.q.abs time ct := by
    unfold KS.add
    rw [← erase_is_eraseKey h ct]
    unfold CS.add
    cases hl : lookupKey (k ct) c.pending with
    | none => simp only []; exact abs_add h.inv time ct
    | some prev =>
      simp only []
      by_cases hp : (prev != ct) = true
      · simp only [hp, if_true]
        rw [abs_add (inv_remove h.inv prev), abs_remove h.inv]
      · simp only [hp]
        exact abs_add h.inv time ct
  refine ⟨habs, ?_, ?_, ?_⟩
  · unfold CS.add
    cases hl : lookupKey (k ct) c.pending with
    | none => exact inv_add h.inv time ct
    | some prev =>
      simp only []
      by_cases hp : (prev != ct) = true
      · simp only [hp, if_true]; exact inv_add (inv_remove h.inv prev) time ct
      · simp only [hp]; exact inv_add h.inv time ct
  · intro x hx
    rw [habs, KS.add, SQ.mem_insert] at hx
    have hpend : (c.add k time ct).pending = setKey (k ct) ct c.pending := rfl
    rw [hpend]
    rcases hx with rfl | hx
    · exact lookup_setKey_same _ _ _
    · rw [mem_eraseKey_iff] at hx
      rw [lookup_setKey_other hx.2]
      exact h.pend x hx.1
  · intro key v hv
    have hpend : (c.add k time ct).pending = setKey (k ct) ct c.pending := rfl
    rw [hpend] at hv
    by_cases hk : key = k ct
    · subst hk; rw [lookup_setKey_same] at hv; exact (Option.some.inj hv) ▸ rfl
    · rw [lookup_setKey_other hk] at hv; exact h.keyOK _ _ hv

theorem cs_pop_spec {k : Nat → Nat} {c : CS} (h : CSInv k c) :
    (c.pop k).2 = c.q.abs.head? ∧ (c.pop k).1.q.abs = c.q.abs.tail ∧ CSInv k (c.pop k).1 := by
  obtain ⟨h1, h2, h3⟩ := pop_spec h.inv
  refine ⟨h1, h2, h3, ?_, ?_⟩
  · intro x hx
    have hx' : x ∈ c.q.abs.tail := by rw [← h2]; exact hx
    have hxm : x ∈ c.q.abs := List.mem_of_mem_tail hx'
    show lookupKey (k x.2) (popPending k c.pending c.q.pop.2) = some x.2
    rw [h1]
    cases hq : c.q.abs with
    | nil => rw [hq] at hx'; cases hx'
    | cons y rest =>
      rw [hq] at hx'
      simp only [List.tail_cons] at hx'
      simp only [List.head?_cons, popPending]
      have hnd : (ids (y :: rest)).Nodup := by have := h.inv.nodup; rw [← TQ.abs_eq, hq] at this; exact this
      have hne : x.2 ≠ y.2 := by
        intro he
        have : y.2 ∈ ids rest := he ▸ List.mem_map_of_mem hx'
        exact (List.nodup_cons.mp hnd).1 this
      have hy : lookupKey (k y.2) c.pending = some y.2 := h.pend y (by rw [hq]; exact List.mem_cons_self)
      have hkne : k x.2 ≠ k y.2 := by
        intro hk
        have := h.pend x hxm
        rw [hk, hy] at this
        exact hne (Option.some.inj this).symm
      rw [if_pos hy, lookup_delKey_other hkne]
      exact h.pend x hxm
  · intro key v hv
    have hv' : lookupKey key (popPending k c.pending c.q.pop.2) = some v := hv
    cases hp : c.q.pop.2 with
    | none => rw [hp] at hv'; exact h.keyOK _ _ hv'
    | some y =>
      rw [hp] at hv'
      simp only [popPending] at hv'
      split at hv'
      · by_cases hk : key = k y.2
        · subst hk; rw [lookup_delKey_same] at hv'; cases hv'
        · rw [lookup_delKey_other hk] at hv'; exact h.keyOK _ _ hv'
      · exact h.keyOK _ _ hv'

/-! ### retime -/

theorem retime_fold_abs (f : Nat → Option Int) (l : List (Int × Nat)) {q : TQ} (h : Inv q) :
    (l.foldl (retimeStepQ f) q).abs = l.foldl (retimeStepS f) q.abs ∧ Inv (l.foldl (retimeStepQ f) q) := by
  induction l generalizing q with
  | nil => exact ⟨rfl, h⟩
  | cons x l ih =>
    simp only [List.foldl_cons]
    have hstep : (retimeStepQ f q x).abs = retimeStepS f q.abs x ∧ Inv (retimeStepQ f q x) := by
      unfold retimeStepQ retimeStepS
      cases f x.2 with
      | none => exact ⟨rfl, h⟩
      | some t => exact ⟨abs_add h t x.2, inv_add h t x.2⟩
    obtain ⟨i1, i2⟩ := ih hstep.2
    rw [i1, hstep.1]
    exact ⟨rfl, i2⟩

theorem ids_retimeStep (f : Nat → Option Int) (s : SQ) (x : Int × Nat) (hx : x.2 ∈ ids s) (t : Nat) :
    t ∈ ids (retimeStepS f s x) ↔ t ∈ ids s := by
  unfold retimeStepS
  cases f x.2 with
  | none => exact Iff.rfl
  | some p =>
    simp only [ids, List.mem_map]
    constructor
    · rintro ⟨y, hy, rfl⟩
      rw [SQ.mem_insert] at hy
      rcases hy with rfl | hy
      · simpa [ids] using hx
      · exact ⟨y, ((mem_erase_iff _ _ _).mp hy).1, rfl⟩
    · rintro ⟨y, hy, rfl⟩
      by_cases he : y.2 = x.2
      · exact ⟨(p, x.2), (SQ.mem_insert _ _ _ _).mpr (Or.inl rfl), he.symm⟩
      · exact ⟨y, (SQ.mem_insert _ _ _ _).mpr (Or.inr ((mem_erase_iff _ _ _).mpr ⟨hy, he⟩)), rfl⟩

theorem ids_retimeFold (f : Nat → Option Int) (l : List (Int × Nat)) (s : SQ)
    (hl : ∀ x ∈ l, x.2 ∈ ids s) (t : Nat) :
    t ∈ ids (l.foldl (retimeStepS f) s) ↔ t ∈ ids s := by
  induction l generalizing s with
  | nil => exact Iff.rfl
  | cons x l ih =>
    simp only [List.foldl_cons]
    have hx := hl x List.mem_cons_self
    rw [ih _ (fun y hy => (ids_retimeStep f s x hx y.2).mpr (hl y (List.mem_cons_of_mem _ hy)))]
    exact ids_retimeStep f s x hx t

theorem cs_retime_spec {k : Nat → Nat} {c : CS} (h : CSInv k c) (f : Nat → Option Int) :
    (c.retime f).q.abs = KS.retime c.q.abs f ∧ CSInv k (c.retime f) := by
  obtain ⟨h1, h2⟩ := retime_fold_abs f c.q.iter h.inv
  have habs : (c.retime f).q.abs = KS.retime c.q.abs f := h1
  refine ⟨habs, h2, ?_, h.keyOK⟩
  intro x hx
  rw [habs] at hx
  have hmem : x.2 ∈ ids c.q.abs :=
    (ids_retimeFold f c.q.abs c.q.abs (fun y hy => List.mem_map_of_mem hy) x.2).mp (List.mem_map_of_mem hx)
  obtain ⟨y, hy, hyx⟩ := List.mem_map.mp hmem
  have := h.pend y hy
  rw [hyx] at this
  exact this

theorem cs_step_refines {k : Nat → Nat} {c : CS} (h : CSInv k c) (op : CSOp) :
    (c.step k op).2 = (KS.step k c.q.abs op).2 ∧ (c.step k op).1.q.abs = (KS.step k c.q.abs op).1 ∧
    CSInv k (c.step k op).1 := by
  cases op with
  | add time ct => exact ⟨rfl, (cs_add_spec h time ct).1, (cs_add_spec h time ct).2⟩
  | pop =>
    obtain ⟨h1, h2, h3⟩ := cs_pop_spec (k := k) h
    exact ⟨by simp only [CS.step, KS.step]; rw [h1], h2, h3⟩
  | retime l => exact ⟨rfl, (cs_retime_spec h _).1, (cs_retime_spec h _).2⟩
  | iter => exact ⟨rfl, rfl, h⟩

theorem cs_run_refines {k : Nat → Nat} {c : CS} (h : CSInv k c) (ops : List CSOp) :
    (c.run k ops).2 = (KS.run k c.q.abs ops).2 ∧ (c.run k ops).1.q.abs = (KS.run k c.q.abs ops).1 ∧
    CSInv k (c.run k ops).1 := by
  induction ops generalizing c with
  | nil => exact ⟨rfl, rfl, h⟩
  | cons op ops ih =>
    obtain ⟨h1, h2, h3⟩ := cs_step_refines h op
    obtain ⟨i1, i2, i3⟩ := ih h3
    simp only [CS.run, KS.run]
    rw [← h2, ← h1]
    exact ⟨by rw [i1], i2, i3⟩

/-- one entry per key -/
theorem csinv_keys_nodup {k : Nat → Nat} {c : CS} (h : CSInv k c) : ((ids c.q.abs).map k).Nodup := by
  have hnd : (ids c.q.abs).Nodup := by have := h.inv.nodup; rw [← TQ.abs_eq] at this; exact this
  refine List.Nodup.map_on ?_ hnd
  intro t ht u hu hk
  obtain ⟨x, hx, rfl⟩ := List.mem_map.mp ht
  obtain ⟨y, hy, rfl⟩ := List.mem_map.mp hu
  have h1 := h.pend x hx
  have h2 := h.pend y hy
  rw [hk, h2] at h1
  exact (Option.some.inj h1).symm

/-! ### relative order: `[a, b] <+ ids s` = "a is listed before b" -/

theorem ids_insert_sublist (p : Int) (t : Nat) (s : SQ) : (ids s).Sublist (ids (SQ.insert p t s)) := by
  induction s with
  | nil => simp [ids]
  | cons x xs ih =>
    unfold SQ.insert; split
    · exact List.Sublist.cons _ (List.Sublist.refl _)
    · exact List.Sublist.cons_cons _ ih

theorem ids_erase (t : Nat) (s : SQ) : ids (SQ.erase t s) = (ids s).filter (· != t) := by
  simp [ids, SQ.erase, List.filter_map, Function.comp_def]

theorem pair_erase {a b t : Nat} (ha : a ≠ t) (hb : b ≠ t) {s : SQ} (h : [a, b].Sublist (ids s)) :
    [a, b].Sublist (ids (SQ.erase t s)) := by
  rw [ids_erase]
  have := h.filter (· != t)
  simpa [List.filter, bneT ha, bneT hb] using this

theorem mem_ids_insert (p : Int) (t : Nat) (s : SQ) : t ∈ ids (SQ.insert p t s) :=
  List.mem_map_of_mem (f := Prod.snd) ((SQ.mem_insert p t s (p, t)).mpr (Or.inl rfl))

/-- inserting `b` at a time not earlier than `a`'s puts it behind `a` -/
theorem insert_after {pa p : Int} {a b : Nat} {s : SQ} (hs : SQ.Sorted s) (ha : (pa, a) ∈ s)
    (hle : pa ≤ p) : [a, b].Sublist (ids (SQ.insert p b s)) := by
  induction s with
  | nil => cases ha
  | cons x xs ih =>
    have hsx := List.pairwise_cons.mp hs
    unfold SQ.insert; split
    · next hlt =>
      exfalso
      rcases List.mem_cons.mp ha with rfl | hm
      · simp at hlt; omega
      · have := hsx.1 _ hm; simp at this; omega
    · rcases List.mem_cons.mp ha with rfl | hm
      · exact List.Sublist.cons_cons _ (List.singleton_sublist.mpr (mem_ids_insert p b xs))
      · exact List.Sublist.cons _ (ih hsx.2 hm)

theorem retimeStep_sorted (f : Nat → Option Int) {s : SQ} (hs : SQ.Sorted s) (x : Int × Nat) :
    SQ.Sorted (retimeStepS f s x) := by
  unfold retimeStepS
  cases f x.2 with
  | none => exact hs
  | some t => exact SQ.insert_sorted _ _ _ (SQ.erase_sorted _ _ hs)

/-- steps on other tasks keep the pair in order -/
theorem retime_claim3 (f : Nat → Option Int) {a b : Nat} (l : List (Int × Nat)) (s : SQ)
    (ha : a ∉ ids l) (hb : b ∉ ids l) (h : [a, b].Sublist (ids s)) :
    [a, b].Sublist (ids (l.foldl (retimeStepS f) s)) := by
  induction l generalizing s with
  | nil => exact h
  | cons x l ih =>
    simp only [List.foldl_cons]
    have hxa : a ≠ x.2 := fun e => ha (by simp [ids, e])
    have hxb : b ≠ x.2 := fun e => hb (by simp [ids, e])
    apply ih _ (fun m => ha (by simp [ids] at m ⊢; exact Or.inr m)) (fun m => hb (by simp [ids] at m ⊢; exact Or.inr m))
    unfold retimeStepS
    cases f x.2 with
    | none => exact h
    | some t => exact (pair_erase hxa hxb h).trans (ids_insert_sublist _ _ _)

/-- `a` already re-inserted at `ta`; `b` still to come with a time not earlier -/
theorem retime_claim2 (f : Nat → Option Int) {a b : Nat} {ta tb : Int} (hfb : f b = some tb)
    (hle : ta ≤ tb) (l : List (Int × Nat)) (s : SQ) (hnd : (ids l).Nodup)
    (ha : a ∉ ids l) (hb : b ∈ ids l) (hs : SQ.Sorted s) (hmem : (ta, a) ∈ s) :
    [a, b].Sublist (ids (l.foldl (retimeStepS f) s)) := by
  induction l generalizing s with
  | nil => cases hb
  | cons x l ih =>
    simp only [List.foldl_cons]
    have hnd' := List.nodup_cons.mp (show (x.2 :: ids l).Nodup from hnd)
    have hxa : a ≠ x.2 := fun e => ha (by simp [ids, e])
    have ha' : a ∉ ids l := fun m => ha (by simp [ids] at m ⊢; exact Or.inr m)
    by_cases hxb : x.2 = b
    · have hb' : b ∉ ids l := hxb ▸ hnd'.1
      apply retime_claim3 f l _ ha' hb'
      unfold retimeStepS
      rw [hxb, hfb]
      have hab : a ≠ b := hxb ▸ hxa
      exact insert_after (SQ.erase_sorted _ _ hs) ((mem_erase_iff _ _ _).mpr ⟨hmem, hab⟩) hle
    · have hb' : b ∈ ids l := by
        have : b ∈ x.2 :: ids l := hb
        rcases List.mem_cons.mp this with e | m
        · exact absurd e.symm hxb
        · exact m
      apply ih _ hnd'.2 ha' hb' (retimeStep_sorted f hs x)
      unfold retimeStepS
      cases f x.2 with
      | none => exact hmem
      | some t => exact (SQ.mem_insert _ _ _ _).mpr (Or.inr ((mem_erase_iff _ _ _).mpr ⟨hmem, hxa⟩))

theorem retime_claim1 (f : Nat → Option Int) {a b : Nat} {ta tb : Int} (hfa : f a = some ta)
    (hfb : f b = some tb) (hle : ta ≤ tb) (l : List (Int × Nat)) (s : SQ) (hnd : (ids l).Nodup)
    (hab : [a, b].Sublist (ids l)) (hs : SQ.Sorted s) :
    [a, b].Sublist (ids (l.foldl (retimeStepS f) s)) := by
  induction l generalizing s with
  | nil => cases hab
  | cons x l ih =>
    simp only [List.foldl_cons]
    have hnd' := List.nodup_cons.mp (show (x.2 :: ids l).Nodup from hnd)
    have hab' : [a, b].Sublist (x.2 :: ids l) := hab
    cases hab' with
    | cons _ h => exact ih _ hnd'.2 h (retimeStep_sorted f hs x)
    | cons_cons _ h =>
      have hb : b ∈ ids l := List.singleton_sublist.mp h
      apply retime_claim2 f hfb hle l _ hnd'.2 hnd'.1 hb (retimeStep_sorted f hs x)
      unfold retimeStepS
      rw [hfa]
      exact (SQ.mem_insert _ _ _ _).mpr (Or.inl rfl)

/-! ### score -/

theorem insertAll_sorted (l : List (Int × Nat)) (s : SQ) (hs : SQ.Sorted s) : SQ.Sorted (insertAll l s) := by
  induction l generalizing s with
  | nil => exact hs
  | cons x l ih => exact ih _ (SQ.insert_sorted _ _ _ hs)

theorem insertAll_perm (l : List (Int × Nat)) (s : SQ) : (insertAll l s).Perm (l ++ s) := by
  induction l generalizing s with
  | nil => exact List.Perm.refl _
  | cons x l ih =>
    unfold insertAll; simp only [List.foldl_cons]
    refine (ih _).trans ?_
    refine (List.Perm.append_left l (SQ.insert_perm x.1 x.2 s)).trans ?_
    exact List.perm_middle

theorem insertAll_sublist (l : List (Int × Nat)) (s : SQ) : (ids s).Sublist (ids (insertAll l s)) := by
  induction l generalizing s with
  | nil => exact List.Sublist.refl _
  | cons x l ih => exact (ids_insert_sublist x.1 x.2 s).trans (ih _)

theorem insertAll_mem (l : List (Int × Nat)) (s : SQ) (y : Int × Nat) (h : y ∈ s) : y ∈ insertAll l s := by
  induction l generalizing s with
  | nil => exact h
  | cons x l ih => exact ih _ ((SQ.mem_insert _ _ _ _).mpr (Or.inr h))

theorem insertAll_after (l : List (Int × Nat)) (s : SQ) (hs : SQ.Sorted s) (x y : Int × Nat)
    (hx : x ∈ s) (hy : y ∈ l) (hle : x.1 ≤ y.1) : [x.2, y.2].Sublist (ids (insertAll l s)) := by
  induction l generalizing s with
  | nil => cases hy
  | cons z l ih =>
    unfold insertAll; simp only [List.foldl_cons]
    rcases List.mem_cons.mp hy with rfl | hm
    · exact (insert_after hs hx hle).trans (insertAll_sublist l _)
    · exact ih _ (SQ.insert_sorted _ _ _ hs) ((SQ.mem_insert _ _ _ _).mpr (Or.inr hx)) hm

theorem insertAll_fifo (l : List (Int × Nat)) (s : SQ) (hs : SQ.Sorted s) (x y : Int × Nat)
    (h : [x, y].Sublist l) (hle : x.1 ≤ y.1) : [x.2, y.2].Sublist (ids (insertAll l s)) := by
  induction l generalizing s with
  | nil => cases h
  | cons z l ih =>
    unfold insertAll; simp only [List.foldl_cons]
    cases h with
    | cons _ h' => exact ih _ (SQ.insert_sorted _ _ _ hs) h'
    | cons_cons _ h' =>
      exact insertAll_after l _ (SQ.insert_sorted _ _ _ hs) x y
        ((SQ.mem_insert _ _ _ _).mpr (Or.inl rfl)) (List.singleton_sublist.mp h') hle

structure ScInv (s : Score) : Prop where
  inv : Inv s.q
  fresh : ∀ t ∈ ids s.q.abs, t < s.next

theorem score_add_spec {s : Score} (h : ScInv s) (time : Int) :
    (s.add time).q.abs = SQ.insert time s.next s.q.abs ∧ ScInv (s.add time) := by
  have hnot : s.next ∉ ids s.q.abs := fun m => Nat.lt_irrefl _ (h.fresh _ m)
  have habs : (s.add time).q.abs = SQ.insert time s.next s.q.abs := by
    show (s.q.add time s.next).abs = _
    rw [abs_add h.inv, SQ.erase_of_not_mem _ _ hnot]
  refine ⟨habs, inv_add h.inv _ _, ?_⟩
  intro t ht
  rw [habs] at ht
  obtain ⟨y, hy, rfl⟩ := List.mem_map.mp ht
  show y.2 < s.next + 1
  rcases (SQ.mem_insert _ _ _ _).mp hy with rfl | hm
  · exact Nat.lt_succ_self _
  · exact Nat.lt_succ_of_lt (h.fresh _ (List.mem_map_of_mem hm))

theorem score_addAll_spec (times : List Int) {s : Score} (h : ScInv s) :
    (s.addAll times).q.abs = insertAll (times.zipIdx s.next) s.q.abs ∧ ScInv (s.addAll times) := by
  induction times generalizing s with
  | nil => exact ⟨rfl, h⟩
  | cons t ts ih =>
    obtain ⟨h1, h2⟩ := score_add_spec h t
    obtain ⟨i1, i2⟩ := ih h2
    unfold Score.addAll at *
    simp only [List.foldl_cons, List.zipIdx_cons]
    refine ⟨?_, i2⟩
    rw [i1, h1]
    rfl

end Sc3Verif.C09

namespace Sc3Verif.C09

/-! ### Ppar -/

theorem pparLoop_refines (fuel : Nat) (s : PparSt) (h : Inv s.q) :
    pparLoop fuel s = pparLoopS s.rem s.now fuel s.q.abs := by
  induction fuel generalizing s with
  | zero => rfl
  | succ fuel ih =>
    obtain ⟨h1, h2, h3⟩ := pop_spec h
    unfold pparLoop pparLoopS
    rw [empty_spec h]
    cases hq : s.q.abs with
    | nil => simp
    | cons y tail =>
      rw [h1, hq]
      simp only [List.isEmpty_cons, Bool.false_eq_true, if_false, List.head?_cons, List.tail_cons]
      cases hrem : s.rem.getD y.2 [] with
      | nil =>
        simp only []
        rw [empty_spec h3, peekSmallest_spec, h2, hq]
        simp only [List.tail_cons]
        cases tail with
        | nil => simp
        | cons z tl =>
          simp only [List.isEmpty_cons, Bool.false_eq_true, if_false]
          have := ih { s with q := s.q.pop.1, now := peekTime (z :: tl).head? s.now } h3
          simp only [h2, hq, List.tail_cons] at this
          rw [this]
      | cons d rest =>
        simp only []
        have hinv := inv_add h3 (s.now + d) y.2
        have habs := abs_add h3 (s.now + d) y.2
        rw [h2, hq] at habs
        simp only [List.tail_cons] at habs
        rw [peekSmallest_spec, habs]
        have := ih { q := s.q.pop.1.add (s.now + d) y.2, rem := s.rem.set y.2 rest,
                     now := peekTime (SQ.insert (s.now + d) y.2 (SQ.erase y.2 tail)).head? s.now } hinv
        simp only [habs] at this
        rw [this]

theorem pparInit_refines (n : Nat) : (pparInitQ n).abs = pparInitS n ∧ Inv (pparInitQ n) := by
  unfold pparInitQ pparInitS
  generalize List.range n = l
  have : ∀ (q : TQ), Inv q → (l.foldl (fun q c => q.add 0 c) q).abs
      = l.foldl (fun s c => SQ.insert 0 c (SQ.erase c s)) q.abs ∧ Inv (l.foldl (fun q c => q.add 0 c) q) := by
    induction l with
    | nil => intro q hq; exact ⟨rfl, hq⟩
    | cons c l ih =>
      intro q hq
      simp only [List.foldl_cons]
      obtain ⟨i1, i2⟩ := ih (q.add 0 c) (inv_add hq 0 c)
      rw [i1, abs_add hq]
      exact ⟨rfl, i2⟩
  exact this TQ.init inv_init

end Sc3Verif.C09
