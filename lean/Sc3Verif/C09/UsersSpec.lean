/-
C09 — abstract specifications of the users of the queue.

Scheduler: a sorted list of (time, clock task) in which no two entries have the same key
(`k ct` = (clock, task)): adding a clock task first drops whatever entry has its key.
Retime: the entries of the re-timed clock are re-inserted one after the other in queue order.
Score: stable insertion of fresh entries.
-/
import Sc3Verif.C09.Users
namespace Sc3Verif.C09

def KS.eraseKey (k : Nat → Nat) (key : Nat) (s : SQ) : SQ := s.filter fun x => k x.2 != key

def KS.add (k : Nat → Nat) (s : SQ) (time : Int) (ct : Nat) : SQ :=
  SQ.insert time ct (KS.eraseKey k (k ct) s)

def retimeStepS (f : Nat → Option Int) (s : SQ) (x : Int × Nat) : SQ :=
  match f x.2 with
  | some t => SQ.insert t x.2 (SQ.erase x.2 s)
  | none => s

def KS.retime (s : SQ) (f : Nat → Option Int) : SQ := s.foldl (retimeStepS f) s

def KS.step (k : Nat → Nat) (s : SQ) : CSOp → SQ × Out
  | .add time ct => (KS.add k s time ct, .unit)
  | .pop => (s.tail, .item s.head?)
  | .retime l => (KS.retime s (timesFn l), .unit)
  | .iter => (s, .items s)

def KS.run (k : Nat → Nat) (s : SQ) : List CSOp → SQ × List Out
  | [] => (s, [])
  | op :: ops =>
    let (s', o) := KS.step k s op
    let (s'', os) := KS.run k s' ops
    (s'', o :: os)

/-- stable insertion of the bundles in the order they were added: what a score must list -/
def insertAll (l : List (Int × Nat)) (s : SQ) : SQ := l.foldl (fun acc x => SQ.insert x.1 x.2 acc) s

def stableByTime (l : List (Int × Nat)) : SQ := insertAll l []

end Sc3Verif.C09

namespace Sc3Verif.C09

/-- the same merge on the specification: the sorted list decides who is next -/
def pparLoopS (rem : List (List Int)) (now : Int) : Nat → SQ → List (Option Nat × Int)
  | 0, _ => []
  | fuel + 1, s =>
    match s.head? with
    | none => []
    | some x =>
      match rem.getD x.2 [] with
      | d :: rest =>
        let s' := SQ.insert (now + d) x.2 (SQ.erase x.2 s.tail)
        let next := peekTime s'.head? now
        (some x.2, next - now) :: pparLoopS (rem.set x.2 rest) next fuel s'
      | [] =>
        if s.tail.isEmpty then []
        else
          let next := peekTime s.tail.head? now
          (none, next - now) :: pparLoopS rem next fuel s.tail

def pparInitS (n : Nat) : SQ := (List.range n).foldl (fun s c => SQ.insert 0 c (SQ.erase c s)) []

def pparS (rem : List (List Int)) : List (Option Nat × Int) :=
  pparLoopS rem 0 (rem.length + (rem.map List.length).sum + 1) (pparInitS rem.length)

end Sc3Verif.C09
