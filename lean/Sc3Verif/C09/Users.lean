/-
C09 — executable models of two users of `TaskQueue` (core Lean only; loaded by the driver).

* `CS`  = `sc3/base/clock.py: ClockScheduler` (the non-real-time scheduler): the queue of
  clock-task ids plus the `_pending` dict `(clock, task) ↦ clock task` ("a task has one entry per
  clock").  A clock task is a number `ct`, its dict key is `k ct` (`k` is a parameter: the key of a
  `ClockTask` object never changes).  `add`, one iteration of `run` (`pop`), and `retime` (a tempo
  change re-inserts the pending tasks of one clock, walking the QUEUE in queue order).
* `Score` = `sc3/base/_oscinterface.py: OscScore` as far as ordering goes: every `add` wraps the
  bundle in a fresh `_Entry` object (entries never compare equal), `finish` lists the queue.
-/
import Sc3Verif.C09.Spec
namespace Sc3Verif.C09

def lookupKey (key : Nat) : List (Nat × Nat) → Option Nat
  | [] => none
  | e :: r => if e.1 = key then some e.2 else lookupKey key r

def delKey (key : Nat) (m : List (Nat × Nat)) : List (Nat × Nat) := m.filter fun e => e.1 != key

def setKey (key ct : Nat) (m : List (Nat × Nat)) : List (Nat × Nat) := (key, ct) :: delKey key m

structure CS where
  q : TQ
  pending : List (Nat × Nat)      -- `_pending`: key ↦ clock task
deriving Repr

def CS.init : CS := { q := TQ.init, pending := [] }

/-- `ClockScheduler.add(time, clock_task)` -/
def CS.add (k : Nat → Nat) (c : CS) (time : Int) (ct : Nat) : CS :=
  let q := match lookupKey (k ct) c.pending with
    | some prev => if prev != ct then c.q.remove prev else c.q
    | none => c.q
  { q := q.add time ct, pending := setKey (k ct) ct c.pending }

/-- `if self._pending.get(key) is clock_task: del self._pending[key]` for what `pop` returned -/
def popPending (k : Nat → Nat) (m : List (Nat × Nat)) : Option (Int × Nat) → List (Nat × Nat)
  | some x => if lookupKey (k x.2) m = some x.2 then delKey (k x.2) m else m
  | none => m

/-- one iteration of `ClockScheduler.run`: `pop`, forget the pending entry if it is this task -/
def CS.pop (k : Nat → Nat) (c : CS) : CS × Option (Int × Nat) :=
  ({ q := c.q.pop.1, pending := popPending k c.pending c.q.pop.2 }, c.q.pop.2)

/-- one step of the loop of `retime` on the queue -/
def retimeStepQ (f : Nat → Option Int) (q : TQ) (x : Int × Nat) : TQ :=
  match f x.2 with
  | some t => q.add t x.2
  | none => q

/-- `ClockScheduler.retime(clock)`: `for _, ct in list(self.queue): if ct.clock is clock:
    self.queue.add(new time, ct)`; `f ct = some t` for the tasks of that clock. -/
def CS.retime (c : CS) (f : Nat → Option Int) : CS :=
  { c with q := c.q.iter.foldl (retimeStepQ f) c.q }

inductive CSOp where
  | add (time : Int) (ct : Nat)
  | pop
  | retime (f : List (Nat × Int))     -- new times of the re-timed clock tasks
  | iter
deriving Repr

def timesFn (l : List (Nat × Int)) (ct : Nat) : Option Int :=
  (l.find? fun e => e.1 == ct).map Prod.snd

def CS.step (k : Nat → Nat) (c : CS) : CSOp → CS × Out
  | .add time ct => (c.add k time ct, .unit)
  | .pop => ((c.pop k).1, .item (c.pop k).2)
  | .retime l => (c.retime (timesFn l), .unit)
  | .iter => (c, .items c.q.iter)

def CS.run (k : Nat → Nat) (c : CS) : List CSOp → CS × List Out
  | [] => (c, [])
  | op :: ops =>
    let (c', o) := c.step k op
    let (c'', os) := c'.run k ops
    (c'', o :: os)

/-! ### OscScore -/

structure Score where
  q : TQ
  next : Nat          -- identity of the next `_Entry` object
deriving Repr

def Score.init : Score := { q := TQ.init, next := 0 }

def Score.add (s : Score) (time : Int) : Score :=
  { q := s.q.add time s.next, next := s.next + 1 }

def Score.addAll (s : Score) (times : List Int) : Score := times.foldl Score.add s

/-- what `finish` lists: (time, entry) in queue order -/
def Score.listing (s : Score) : List (Int × Nat) := s.q.iter

end Sc3Verif.C09

namespace Sc3Verif.C09

/-! ### Ppar: parallel pattern streams merged through a queue

`sc3/seq/patterns/eventpatterns.py: Ppar.__embed__`.  Child `c` is a stream of events whose
deltas are `rem c` (scripted); the queue holds (next time, child).  Output: `(some c, d)` = the next
event of child `c` with outgoing delta `d`, `(none, d)` = a silent event of duration `d`. -/

structure PparSt where
  q : TQ
  rem : List (List Int)        -- remaining deltas of every child
  now : Int

def peekTime (o : Option (Int × Nat)) (dflt : Int) : Int :=
  match o with
  | some x => x.1
  | none => dflt

def pparLoop : Nat → PparSt → List (Option Nat × Int)
  | 0, _ => []
  | fuel + 1, s =>
    if s.q.empty then []
    else
      match s.q.pop.2 with
      | none => []
      | some x =>
        match s.rem.getD x.2 [] with
        | d :: rest =>
          let q'' := s.q.pop.1.add (s.now + d) x.2
          let next := peekTime q''.peekSmallest s.now
          (some x.2, next - s.now) :: pparLoop fuel { q := q'', rem := s.rem.set x.2 rest, now := next }
        | [] =>
          if s.q.pop.1.empty then []
          else
            let next := peekTime s.q.pop.1.peekSmallest s.now
            (none, next - s.now) :: pparLoop fuel { s with q := s.q.pop.1, now := next }

def pparInitQ (n : Nat) : TQ := (List.range n).foldl (fun q c => q.add 0 c) TQ.init

/-- the whole merge: children are queued at time 0 in the order given -/
def ppar (rem : List (List Int)) : List (Option Nat × Int) :=
  pparLoop (rem.length + (rem.map List.length).sum + 1) { q := pparInitQ rem.length, rem := rem, now := 0 }

end Sc3Verif.C09
