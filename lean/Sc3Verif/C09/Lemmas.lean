/-
C09 — helper lemmas: the heap model refines the sorted-list specification.
-/
import Sc3Verif.C09.Spec
namespace Sc3Verif.C09

/-- live entries in heap order -/
def iterL (q : List Entry) : SQ := q.filterMap fun e => e.task.map fun t => (e.prio, t)

theorem TQ.abs_eq (q : TQ) : q.abs = iterL q.queue := rfl

structure Inv (q : TQ) : Prop where
  sorted : q.queue.Pairwise (fun a b => a.prio ≤ b.prio)
  countLt : ∀ e ∈ q.queue, e.count < q.counter
  finder : ∀ t, t ∈ q.finder ↔ ∃ e ∈ q.queue, e.task = some t
  removed : q.removed = ((q.queue.filter (fun e => !e.live)).length : Int)
  nodup : ((iterL q.queue).map Prod.snd).Nodup

theorem SQ.insert_lt_all (p : Int) (t : Nat) (s : SQ) (h : ∀ y ∈ s, p < y.1) :
    SQ.insert p t s = (p, t) :: s := by
  cases s with
  | nil => rfl
  | cons x xs => simp [SQ.insert, h x (by simp)]

theorem iterL_prio_mem {q : List Entry} {y : Int × Nat} (h : y ∈ iterL q) :
    ∃ e ∈ q, e.prio = y.1 ∧ e.task = some y.2 := by
  unfold iterL at h
  simp only [List.mem_filterMap, Option.map_eq_some_iff] at h
  obtain ⟨e, he, t, ht, rfl⟩ := h
  exact ⟨e, he, rfl, ht⟩

theorem iterL_insertSorted (p : Int) (c t : Nat) (q : List Entry)
    (hs : q.Pairwise (fun a b => a.prio ≤ b.prio)) (hc : ∀ e ∈ q, e.count < c) :
    iterL (insertSorted ⟨p, c, some t⟩ q) = SQ.insert p t (iterL q) := by
  induction q with
  | nil => rfl
  | cons x xs ih =>
    have hx : x.count < c := hc x (by simp)
    have hs' := (List.pairwise_cons.mp hs)
    have ih' := ih hs'.2 (fun e he => hc e (by simp [he]))
    unfold insertSorted
    by_cases hk : (Entry.keyLt ⟨p, c, some t⟩ x) = true
    · have hp : p < x.prio := by
        simp [Entry.keyLt] at hk; omega
      rw [if_pos hk]
      have : iterL (⟨p, c, some t⟩ :: x :: xs) = (p, t) :: iterL (x :: xs) := by
        simp [iterL]
      rw [this, SQ.insert_lt_all]
      intro y hy
      obtain ⟨e, he, hpe, _⟩ := iterL_prio_mem hy
      rcases List.mem_cons.mp he with rfl | he'
      · omega
      · have := hs'.1 e he'; omega
    · have hp : ¬ p < x.prio := by
        simp [Entry.keyLt] at hk; omega
      rw [if_neg hk]
      cases hx' : x.task with
      | none => simp [iterL, hx'] at ih' ⊢; exact ih'
      | some tx =>
        simp [iterL, hx', SQ.insert, hp] at ih' ⊢; exact ih'

theorem iterL_tombstone (t : Nat) (q : List Entry) :
    iterL (tombstone t q) = SQ.erase t (iterL q) := by
  induction q with
  | nil => rfl
  | cons x xs ih =>
    have hcons : tombstone t (x :: xs) =
        (if x.task = some t then { x with task := none } else x) :: tombstone t xs := rfl
    rw [hcons]
    cases hx : x.task with
    | none =>
      have : iterL (x :: xs) = iterL xs := by simp [iterL, hx]
      rw [this, ← ih]; simp [iterL, hx]
    | some tx =>
      have h1 : iterL (x :: xs) = (x.prio, tx) :: iterL xs := by simp [iterL, hx]
      by_cases h : tx = t
      · subst h
        rw [h1]; simp only [if_true]
        have : SQ.erase tx ((x.prio, tx) :: iterL xs) = SQ.erase tx (iterL xs) := by
          simp [SQ.erase]
        rw [this, ← ih]; simp [iterL]
      · have hne : ¬ (some tx = some t) := by simpa using h
        rw [h1, if_neg hne]
        have : SQ.erase t ((x.prio, tx) :: iterL xs) = (x.prio, tx) :: SQ.erase t (iterL xs) := by
          simp [SQ.erase, h]
        rw [this, ← ih]; simp [iterL, hx]

theorem popLoop_spec (q : List Entry) (r : Int) :
    (popLoop q r).2.2 = (iterL q).head? ∧ iterL (popLoop q r).1 = (iterL q).tail ∧
    (popLoop q r).2.1 - ((popLoop q r).1.filter (fun e => !e.live)).length
      = r - (q.filter (fun e => !e.live)).length ∧
    (∃ pre, q = pre ++ (popLoop q r).1) := by
  induction q generalizing r with
  | nil => simp [popLoop, iterL]
  | cons x xs ih =>
    cases hx : x.task with
    | none =>
      have := ih (r - 1)
      simp only [popLoop, hx]
      refine ⟨by simpa [iterL, hx] using this.1, by simpa [iterL, hx] using this.2.1, ?_, ?_⟩
      · have h3 := this.2.2.1
        simp [Entry.live, hx] at h3 ⊢; omega
      · obtain ⟨pre, hpre⟩ := this.2.2.2
        exact ⟨x :: pre, by simp [← hpre]⟩
    | some tx =>
      simp only [popLoop, hx]
      refine ⟨by simp [iterL, hx], by simp [iterL, hx], by simp [Entry.live, hx], ⟨[x], by simp⟩⟩

theorem find_live_eq_head (q : List Entry) :
    entryItem (q.find? Entry.live) = (iterL q).head? := by
  induction q with
  | nil => rfl
  | cons x xs ih =>
    cases hx : x.task with
    | none => simp [List.find?, Entry.live, hx, iterL, entryItem] at ih ⊢; exact ih
    | some tx => simp [List.find?, Entry.live, hx, iterL, entryItem]

theorem iterL_reverse (q : List Entry) : iterL q.reverse = (iterL q).reverse := by
  simp [iterL, List.filterMap_reverse]

theorem length_split (q : List Entry) :
    (q.length : Int) = (iterL q).length + (q.filter (fun e => !e.live)).length := by
  induction q with
  | nil => rfl
  | cons x xs ih =>
    cases hx : x.task with
    | none => simp [iterL, Entry.live, hx] at ih ⊢; omega
    | some tx => simp [iterL, Entry.live, hx] at ih ⊢; omega

end Sc3Verif.C09

namespace Sc3Verif.C09

/-! ### facts about the specification -/

theorem SQ.mem_insert (p : Int) (t : Nat) (s : SQ) (y : Int × Nat) :
    y ∈ SQ.insert p t s ↔ y = (p, t) ∨ y ∈ s := by
  induction s with
  | nil => simp [SQ.insert]
  | cons x xs ih =>
    unfold SQ.insert; split
    · simp
    · simp [ih]; grind

theorem SQ.insert_perm (p : Int) (t : Nat) (s : SQ) : (SQ.insert p t s).Perm ((p, t) :: s) := by
  induction s with
  | nil => simp [SQ.insert]
  | cons x xs ih =>
    unfold SQ.insert; split
    · exact List.Perm.refl _
    · exact (List.Perm.cons x ih).trans (List.Perm.swap _ _ _)

theorem SQ.insert_length (p : Int) (t : Nat) (s : SQ) : (SQ.insert p t s).length = s.length + 1 := by
  simpa using (SQ.insert_perm p t s).length_eq

theorem SQ.not_mem_erase (t : Nat) (s : SQ) : t ∉ (SQ.erase t s).map Prod.snd := by
  simp [SQ.erase]

theorem SQ.erase_nodup (t : Nat) (s : SQ) (h : (s.map Prod.snd).Nodup) :
    ((SQ.erase t s).map Prod.snd).Nodup := by
  unfold SQ.erase
  exact (List.filter_sublist.map Prod.snd).nodup h

theorem SQ.insert_nodup (p : Int) (t : Nat) (s : SQ) (h : (s.map Prod.snd).Nodup)
    (ht : t ∉ s.map Prod.snd) : ((SQ.insert p t s).map Prod.snd).Nodup := by
  have hp := (SQ.insert_perm p t s).map Prod.snd
  rw [hp.nodup_iff]
  simp only [List.map_cons, List.nodup_cons]
  exact ⟨ht, h⟩

theorem SQ.erase_length (t : Nat) (s : SQ) (h : (s.map Prod.snd).Nodup)
    (ht : t ∈ s.map Prod.snd) : (SQ.erase t s).length + 1 = s.length := by
  induction s with
  | nil => simp at ht
  | cons x xs ih =>
    simp only [List.map_cons, List.nodup_cons] at h
    by_cases hx : x.2 = t
    · have hnot : t ∉ xs.map Prod.snd := hx ▸ h.1
      have : SQ.erase t (x :: xs) = xs := by
        unfold SQ.erase
        rw [List.filter_cons_of_neg (by simp [hx])]
        apply List.filter_eq_self.mpr
        intro a ha
        have : a.2 ≠ t := fun h' => hnot (h' ▸ List.mem_map_of_mem ha)
        simpa using this
      simp [this]
    · have ht' : t ∈ xs.map Prod.snd := by
        simp only [List.map_cons, List.mem_cons] at ht
        rcases ht with h' | h'
        · exact absurd h'.symm hx
        · exact h'
      have := ih h.2 ht'
      have e : SQ.erase t (x :: xs) = x :: SQ.erase t xs := by
        unfold SQ.erase; rw [List.filter_cons_of_pos (by simpa using hx)]
      simp [e]; omega

theorem SQ.erase_of_not_mem (t : Nat) (s : SQ) (ht : t ∉ s.map Prod.snd) : SQ.erase t s = s := by
  unfold SQ.erase
  apply List.filter_eq_self.mpr
  intro a ha
  have : a.2 ≠ t := fun h' => ht (h' ▸ List.mem_map_of_mem ha)
  simpa using this

def SQ.Sorted (s : SQ) : Prop := s.Pairwise (fun a b => a.1 ≤ b.1)

theorem SQ.erase_sorted (t : Nat) (s : SQ) (h : SQ.Sorted s) : SQ.Sorted (SQ.erase t s) :=
  List.Pairwise.sublist List.filter_sublist h

theorem SQ.insert_sorted (p : Int) (t : Nat) (s : SQ) (h : SQ.Sorted s) :
    SQ.Sorted (SQ.insert p t s) := by
  induction s with
  | nil => simp [SQ.insert, SQ.Sorted]
  | cons x xs ih =>
    unfold SQ.Sorted at *
    have hc := List.pairwise_cons.mp h
    unfold SQ.insert; split
    · rename_i hlt
      refine List.pairwise_cons.mpr ⟨?_, h⟩
      intro a ha
      rcases List.mem_cons.mp ha with rfl | ha'
      · exact Int.le_of_lt hlt
      · have := hc.1 a ha'; simp only at hlt ⊢; omega
    · rename_i hnlt
      refine List.pairwise_cons.mpr ⟨?_, ih hc.2⟩
      intro a ha
      rcases (SQ.mem_insert p t xs a).mp ha with rfl | ha'
      · simp only; omega
      · exact hc.1 a ha'

/-! ### model-side structural lemmas -/

theorem mem_insertSorted (e x : Entry) (q : List Entry) :
    x ∈ insertSorted e q ↔ x = e ∨ x ∈ q := by
  induction q with
  | nil => simp [insertSorted]
  | cons y ys ih =>
    unfold insertSorted; split
    · simp
    · simp [ih]; grind

theorem insertSorted_sorted (p : Int) (c : Nat) (ot : Option Nat) (q : List Entry)
    (hs : q.Pairwise (fun a b => a.prio ≤ b.prio)) (hc : ∀ e ∈ q, e.count < c) :
    (insertSorted ⟨p, c, ot⟩ q).Pairwise (fun a b => a.prio ≤ b.prio) := by
  induction q with
  | nil => simp [insertSorted]
  | cons x xs ih =>
    have hs' := List.pairwise_cons.mp hs
    have hx : x.count < c := hc x (by simp)
    unfold insertSorted
    by_cases hk : (Entry.keyLt ⟨p, c, ot⟩ x) = true
    · rw [if_pos hk]
      have hp : p < x.prio := by simp [Entry.keyLt] at hk; omega
      refine List.pairwise_cons.mpr ⟨?_, hs⟩
      intro a ha
      rcases List.mem_cons.mp ha with rfl | ha'
      · simp only; omega
      · have := hs'.1 a ha'; simp only; omega
    · rw [if_neg hk]
      have hp : ¬ p < x.prio := by simp [Entry.keyLt] at hk; omega
      refine List.pairwise_cons.mpr ⟨?_, ih hs'.2 (fun e he => hc e (by simp [he]))⟩
      intro a ha
      rcases (mem_insertSorted _ a xs).mp ha with rfl | ha'
      · simp only; omega
      · exact hs'.1 a ha'

theorem tombstone_length (t : Nat) (q : List Entry) : (tombstone t q).length = q.length := by
  simp [tombstone]

theorem mem_iterL_snd {q : List Entry} {t : Nat} :
    t ∈ (iterL q).map Prod.snd ↔ ∃ e ∈ q, e.task = some t := by
  unfold iterL
  simp only [List.mem_map, List.mem_filterMap, Option.map_eq_some_iff]
  constructor
  · rintro ⟨y, ⟨e, he, t', ht', rfl⟩, rfl⟩; exact ⟨e, he, ht'⟩
  · rintro ⟨e, he, ht⟩; exact ⟨(e.prio, t), ⟨e, he, t, ht, rfl⟩, rfl⟩

theorem iterL_sorted {q : List Entry} (hs : q.Pairwise (fun a b => a.prio ≤ b.prio)) :
    SQ.Sorted (iterL q) := by
  induction q with
  | nil => simp [iterL, SQ.Sorted]
  | cons x xs ih =>
    have hs' := List.pairwise_cons.mp hs
    cases hx : x.task with
    | none => simpa [iterL, hx] using ih hs'.2
    | some tx =>
      have : iterL (x :: xs) = (x.prio, tx) :: iterL xs := by simp [iterL, hx]
      rw [this]; unfold SQ.Sorted
      refine List.pairwise_cons.mpr ⟨?_, ih hs'.2⟩
      intro a ha
      obtain ⟨e, he, hpe, _⟩ := iterL_prio_mem ha
      have := hs'.1 e he; simp only; omega

end Sc3Verif.C09

namespace Sc3Verif.C09

/-! ### the invariant is preserved, and every step refines the specification -/

theorem inv_init : Inv TQ.init := by
  constructor <;> simp [TQ.init, iterL]

theorem dead_count (q : List Entry) :
    ((q.filter (fun e => !e.live)).length : Int) = q.length - (iterL q).length := by
  have := length_split q; omega

theorem inv_remove {q : TQ} (h : Inv q) (t : Nat) : Inv (q.remove t) := by
  unfold TQ.remove
  split
  · rename_i ht
    have hmem : t ∈ (iterL q.queue).map Prod.snd := mem_iterL_snd.mpr ((h.finder t).mp ht)
    refine ⟨?_, ?_, ?_, ?_, ?_⟩
    · -- sorted: keys unchanged
      simp only [tombstone]
      rw [List.pairwise_map]
      refine h.sorted.imp ?_
      intro a b hab; split <;> split <;> simpa using hab
    · intro e he
      simp only [tombstone, List.mem_map] at he
      obtain ⟨e', he', rfl⟩ := he
      have := h.countLt e' he'
      split <;> simpa using this
    · intro t'
      simp only [List.mem_filter, bne_iff_ne, ne_eq]
      rw [← mem_iterL_snd, iterL_tombstone, h.finder t', ← mem_iterL_snd]
      simp only [SQ.erase, List.mem_map, List.mem_filter, bne_iff_ne, ne_eq]
      constructor
      · rintro ⟨⟨y, hy, rfl⟩, hne⟩; exact ⟨y, ⟨hy, hne⟩, rfl⟩
      · rintro ⟨y, ⟨hy, hne⟩, rfl⟩; exact ⟨⟨y, hy, rfl⟩, hne⟩
    · simp only
      rw [dead_count, tombstone_length, iterL_tombstone, h.removed, dead_count]
      have := SQ.erase_length t _ h.nodup hmem
      omega
    · simp only; rw [iterL_tombstone]; exact SQ.erase_nodup t _ h.nodup
  · exact h

theorem abs_remove {q : TQ} (h : Inv q) (t : Nat) : (q.remove t).abs = SQ.erase t q.abs := by
  unfold TQ.remove
  split
  · simp [TQ.abs_eq, iterL_tombstone]
  · rename_i ht
    rw [TQ.abs_eq, SQ.erase_of_not_mem]
    intro hm
    exact ht ((h.finder t).mpr (mem_iterL_snd.mp hm))

theorem remove_counter (q : TQ) (t : Nat) : (q.remove t).counter = q.counter := by
  unfold TQ.remove; split <;> rfl

theorem not_mem_finder_remove {q : TQ} (t : Nat) : t ∉ (q.remove t).finder := by
  unfold TQ.remove; split
  · simp
  · assumption

theorem add_eq (q : TQ) (p : Int) (t : Nat) :
    q.add p t =
      { counter := (q.remove t).counter + 1
        finder := t :: (q.remove t).finder
        queue := insertSorted ⟨p, (q.remove t).counter, some t⟩ (q.remove t).queue
        removed := (q.remove t).removed } := by
  unfold TQ.add
  by_cases ht : t ∈ q.finder
  · simp [ht]
  · have : q.remove t = q := by unfold TQ.remove; simp [ht]
    simp [ht, this]

theorem abs_add {q : TQ} (h : Inv q) (p : Int) (t : Nat) :
    (q.add p t).abs = SQ.insert p t (SQ.erase t q.abs) := by
  have h' := inv_remove h t
  rw [add_eq, TQ.abs_eq, ← abs_remove h t]
  exact iterL_insertSorted p _ t _ h'.sorted h'.countLt

theorem inv_add {q : TQ} (h : Inv q) (p : Int) (t : Nat) : Inv (q.add p t) := by
  have h' := inv_remove h t
  have hnot : t ∉ ((iterL (q.remove t).queue).map Prod.snd) := by
    intro hm
    exact not_mem_finder_remove t ((h'.finder t).mpr (mem_iterL_snd.mp hm))
  rw [add_eq]
  refine ⟨?_, ?_, ?_, ?_, ?_⟩
  · exact insertSorted_sorted p _ _ _ h'.sorted h'.countLt
  · intro e he
    rcases (mem_insertSorted _ e _).mp he with rfl | he'
    · simp
    · have := h'.countLt e he'; simp only; omega
  · intro t'
    simp only [List.mem_cons]
    constructor
    · rintro (rfl | ht')
      · exact ⟨_, (mem_insertSorted _ _ _).mpr (Or.inl rfl), rfl⟩
      · obtain ⟨e, he, hte⟩ := (h'.finder t').mp ht'
        exact ⟨e, (mem_insertSorted _ _ _).mpr (Or.inr he), hte⟩
    · rintro ⟨e, he, hte⟩
      rcases (mem_insertSorted _ e _).mp he with rfl | he'
      · left; simpa using hte.symm
      · right; exact (h'.finder t').mpr ⟨e, he', hte⟩
  · simp only
    rw [dead_count, iterL_insertSorted p _ t _ h'.sorted h'.countLt, SQ.insert_length,
      h'.removed, dead_count]
    have : (insertSorted ⟨p, (q.remove t).counter, some t⟩ (q.remove t).queue).length
        = (q.remove t).queue.length + 1 := by
      generalize (q.remove t).queue = l
      induction l with
      | nil => simp [insertSorted]
      | cons x xs ih => unfold insertSorted; split <;> simp [ih]
    omega
  · simp only
    rw [iterL_insertSorted p _ t _ h'.sorted h'.countLt]
    exact SQ.insert_nodup p t _ h'.nodup hnot

theorem pop_spec {q : TQ} (h : Inv q) :
    (q.pop).2 = q.abs.head? ∧ (q.pop).1.abs = q.abs.tail ∧ Inv (q.pop).1 := by
  obtain ⟨h1, h2, h3, ⟨pre, hpre⟩⟩ := popLoop_spec q.queue q.removed
  have hsub : (popLoop q.queue q.removed).1.Sublist q.queue := by
    conv => rhs; rw [hpre]
    exact List.sublist_append_right _ _
  have hr : (popLoop q.queue q.removed).2.1 =
      (((popLoop q.queue q.removed).1.filter (fun e => !e.live)).length : Int) := by
    have := h.removed; omega
  have htailnd : ((iterL (popLoop q.queue q.removed).1).map Prod.snd).Nodup := by
    rw [h2]; exact ((List.tail_sublist _).map Prod.snd).nodup h.nodup
  unfold TQ.pop
  rcases hres : popLoop q.queue q.removed with ⟨es, r, res⟩
  rw [hres] at h1 h2 hsub hr htailnd
  simp only at h1 h2 hsub hr htailnd
  cases res with
  | none =>
    simp only
    refine ⟨by rw [TQ.abs_eq, ← h1], by simp [TQ.abs_eq, h2], ?_⟩
    refine ⟨h.sorted.sublist hsub, fun e he => h.countLt e (hsub.subset he), ?_, hr, htailnd⟩
    intro t
    have hnil : iterL q.queue = [] := by
      cases hq : iterL q.queue with
      | nil => rfl
      | cons a l => rw [hq] at h1; simp at h1
    have hes : iterL es = [] := by rw [h2, hnil]; rfl
    simp only
    rw [h.finder t, ← mem_iterL_snd, ← mem_iterL_snd, hnil, hes]
  | some pt =>
    obtain ⟨p, t⟩ := pt
    simp only
    refine ⟨by rw [TQ.abs_eq, ← h1], by simp [TQ.abs_eq, h2], ?_⟩
    refine ⟨h.sorted.sublist hsub, fun e he => h.countLt e (hsub.subset he), ?_, hr, htailnd⟩
    intro t'
    simp only [List.mem_filter, bne_iff_ne, ne_eq]
    rw [h.finder t', ← mem_iterL_snd, ← mem_iterL_snd, h2]
    -- iterL q.queue = (p,t) :: tail, nodup
    cases hq : iterL q.queue with
    | nil => rw [hq] at h1; simp at h1
    | cons a l =>
      rw [hq] at h1
      have ha : a = (p, t) := by simpa using h1.symm
      subst ha
      have hnd := h.nodup; rw [hq] at hnd
      simp only [List.map_cons, List.nodup_cons] at hnd
      simp only [List.map_cons, List.mem_cons, List.tail_cons]
      constructor
      · rintro ⟨h' | h', hne⟩
        · exact absurd h' hne
        · exact h'
      · intro h'
        exact ⟨Or.inr h', fun heq => hnd.1 (heq ▸ h')⟩

theorem peekSmallest_spec (q : TQ) : q.peekSmallest = q.abs.head? := by
  unfold TQ.peekSmallest; rw [TQ.abs_eq]; exact find_live_eq_head q.queue

theorem peekLargest_spec (q : TQ) : q.peekLargest = q.abs.getLast? := by
  unfold TQ.peekLargest
  rw [TQ.abs_eq, find_live_eq_head, iterL_reverse, List.head?_reverse]

theorem empty_spec {q : TQ} (h : Inv q) : q.empty = q.abs.isEmpty := by
  unfold TQ.empty
  rw [TQ.abs_eq, h.removed, dead_count]
  cases hq : iterL q.queue with
  | nil => simp
  | cons a l => simp; omega

/-- One step: same output, abstraction commutes, invariant kept. -/
theorem step_refines {q : TQ} (h : Inv q) (op : Op) :
    (q.step op).2 = (SQ.step q.abs op).2 ∧ (q.step op).1.abs = (SQ.step q.abs op).1 ∧
    Inv (q.step op).1 := by
  cases op with
  | add p t => exact ⟨rfl, abs_add h p t, inv_add h p t⟩
  | remove t => exact ⟨rfl, abs_remove h t, inv_remove h t⟩
  | pop =>
    obtain ⟨h1, h2, h3⟩ := pop_spec h
    refine ⟨?_, ?_, ?_⟩
    · simp only [TQ.step, SQ.step]; rw [h1]
    · simpa [TQ.step, SQ.step] using h2
    · simpa [TQ.step] using h3
  | peekS => exact ⟨by simp [TQ.step, SQ.step, peekSmallest_spec], rfl, h⟩
  | peekL => exact ⟨by simp [TQ.step, SQ.step, peekLargest_spec], rfl, h⟩
  | empty => exact ⟨by simp [TQ.step, SQ.step, empty_spec h], rfl, h⟩
  | clear => exact ⟨rfl, rfl, inv_init⟩
  | iter => exact ⟨rfl, rfl, h⟩

theorem run_refines {q : TQ} (h : Inv q) (ops : List Op) :
    (q.run ops).2 = (SQ.run q.abs ops).2 ∧ (q.run ops).1.abs = (SQ.run q.abs ops).1 ∧
    Inv (q.run ops).1 := by
  induction ops generalizing q with
  | nil => exact ⟨rfl, rfl, h⟩
  | cons op ops ih =>
    obtain ⟨h1, h2, h3⟩ := step_refines h op
    obtain ⟨i1, i2, i3⟩ := ih h3
    simp only [TQ.run, SQ.run]
    rw [← h2, ← h1]
    exact ⟨by rw [i1], i2, i3⟩

end Sc3Verif.C09

namespace Sc3Verif.C09

theorem drain_refines' (beh : Nat → List Op) (fuel : Nat) {q : TQ} (h : Inv q) :
    q.drain beh fuel = SQ.drain beh fuel q.abs := by
  induction fuel generalizing q with
  | zero => rfl
  | succ fuel ih =>
    unfold TQ.drain SQ.drain
    rw [empty_spec h]
    obtain ⟨hp1, hp2, hp3⟩ := pop_spec h
    cases hq : q.abs with
    | nil => simp
    | cons x rest =>
      obtain ⟨p, t⟩ := x
      simp only [List.isEmpty_cons, Bool.false_eq_true, if_false]
      rw [hq] at hp1 hp2
      simp only [List.head?_cons, List.tail_cons] at hp1 hp2
      have hpair : q.pop = (q.pop.1, some (p, t)) := by
        rw [← hp1]
      rw [hpair]
      simp only
      obtain ⟨_, r2, r3⟩ := run_refines hp3 (beh t)
      rw [ih r3, r2, hp2]

end Sc3Verif.C09
