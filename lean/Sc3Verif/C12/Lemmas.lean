/-
C12 — helper lemmas about the definitions generated from sc3/base/clock.py (GenTempo.lean) and the
history model (Model.lean).
-/
import Sc3Verif.C12.Model
import Sc3Verif.C15.Lemmas
namespace Sc3Verif.C12
open Sc3Verif.C12.Gen Sc3Verif.C15.Gen Sc3Verif.C15

/-- the beat↔second map is a proper affine map: the tempo is non-zero and `beat_dur` is its inverse -/
def WF (s : TC) : Prop := s.tempo ≠ 0 ∧ s.beatDur = 1 / s.tempo

/-- the meter is usable: `beats_per_bar` non-zero and `bars_per_beat` its inverse -/
def WFm (s : TC) : Prop := s.beatsPerBar ≠ 0 ∧ s.barsPerBeat = 1 / s.beatsPerBar

theorem secs_beats (s : TC) (h : WF s) (b : ℚ) : secs2beats_F s (beats2secs_F s b) = b := by
  obtain ⟨h0, h1⟩ := h
  unfold secs2beats_F beats2secs_F
  rw [h1]; field_simp; ring

theorem beats_secs (s : TC) (h : WF s) (t : ℚ) : beats2secs_F s (secs2beats_F s t) = t := by
  obtain ⟨h0, h1⟩ := h
  unfold secs2beats_F beats2secs_F
  rw [h1]; field_simp; ring

theorem set_tempo_ok {s s' : TC} {now v : ℚ} (h : set_tempo_F s now v = .ok s') :
    v ≠ 0 ∧ s' = { s with baseSeconds := beats2secs_F s (beats s now), baseBeats := beats s now,
                          tempo := v, beatDur := 1 / v } := by
  unfold set_tempo_F at h
  split_ifs at h with h1 h2 h3
  simp only [Except.ok.injEq] at h
  exact ⟨h1, h.symm⟩

theorem etempo_ok {s s' : TC} {el v : ℚ} (h : etempo_F s el v = .ok s') :
    v ≠ 0 ∧ s' = { s with baseBeats := secs2beats_F s el, baseSeconds := el, tempo := v, beatDur := 1 / v } := by
  unfold etempo_F at h
  split_ifs at h with h1
  simp only [Except.ok.injEq] at h
  exact ⟨h1, h.symm⟩

theorem set_beats_ok {s s' : TC} {now v : ℚ} (h : set_beats_F s now v = .ok s') :
    s.tempo ≠ 0 ∧ s' = { s with baseSeconds := now, baseBeats := v, beatDur := 1 / s.tempo } := by
  unfold set_beats_F at h
  simp only [] at h
  split_ifs at h with h1
  simp only [Except.ok.injEq] at h
  exact ⟨h1, h.symm⟩

theorem set_bpb_ok {s s' : TC} {now v : ℚ} (h : set_beats_per_bar_F s now v = .ok s') :
    v ≠ 0 ∧ s' = { s with
      baseBar := round_FI ((beats s now - s.baseBarBeat) * s.barsPerBeat + s.baseBar) 1,
      baseBarBeat := beats s now, beatsPerBar := v, barsPerBeat := 1 / v } := by
  unfold set_beats_per_bar_F at h
  simp only [] at h
  split_ifs at h with h1
  simp only [Except.ok.injEq] at h
  refine ⟨h1, ?_⟩
  rw [← h]; simp

/-! ### continuity of the current (beat, second) pair -/

theorem tempo_continuous {s s' : TC} {now v : ℚ} (hw : WF s) (h : set_tempo_F s now v = .ok s') :
    beats s' now = beats s now ∧ beats2secs_F s' (beats s now) = now ∧ s'.tempo = v ∧ WF s' := by
  obtain ⟨hv, rfl⟩ := set_tempo_ok h
  obtain ⟨h0, h1⟩ := hw
  refine ⟨?_, ?_, rfl, hv, rfl⟩
  · simp only [beats, secs2beats_F, beats2secs_F]; rw [h1]; field_simp; ring
  · simp only [beats2secs_F, beats, secs2beats_F]; rw [h1]; field_simp; ring

theorem etempo_continuous {s s' : TC} {el v : ℚ} (h : etempo_F s el v = .ok s') :
    secs2beats_F s' el = secs2beats_F s el ∧ s'.tempo = v ∧ WF s' := by
  obtain ⟨hv, rfl⟩ := etempo_ok h
  refine ⟨?_, rfl, hv, rfl⟩
  simp only [secs2beats_F]; ring

theorem beats_set {s s' : TC} {now v : ℚ} (h : set_beats_F s now v = .ok s') :
    beats s' now = v ∧ s'.tempo = s.tempo ∧ WF s' := by
  obtain ⟨ht, rfl⟩ := set_beats_ok h
  refine ⟨?_, rfl, ht, rfl⟩
  simp only [beats, secs2beats_F]; ring

/-- between changes beats advance at the current tempo -/
theorem beats_affine (s : TC) (t d : ℚ) : beats s (t + d) - beats s t = s.tempo * d := by
  simp only [beats, secs2beats_F]; ring

theorem meter_change {s s' : TC} {now v : ℚ} (h : set_beats_per_bar_F s now v = .ok s') :
    beats s' now = beats s now ∧ s'.baseBarBeat = beats s now ∧ s'.beatsPerBar = v ∧ WFm s' ∧
    (WF s → WF s') ∧
    (∃ k : ℤ, s'.baseBar = k ∧ 2 * |(k : ℚ) - beats2bars_F s (beats s now)| ≤ 1) ∧
    beats2bars_F s' (beats s' now) = s'.baseBar := by
  obtain ⟨hv, rfl⟩ := set_bpb_ok h
  refine ⟨rfl, rfl, rfl, ⟨hv, rfl⟩, fun h => h, ?_, ?_⟩
  · rw [round_FI_eq]
    obtain ⟨k, e, h1, h2⟩ := round_FF_spec ((beats s now - s.baseBarBeat) * s.barsPerBeat + s.baseBar) ((1 : ℤ) : ℚ)
      (by norm_num)
    refine ⟨k, ?_, ?_⟩
    · simp only [e]; push_cast; ring
    · simp only [beats2bars_F]
      push_cast at h1 h2
      have : |(k : ℚ) - ((beats s now - s.baseBarBeat) * s.barsPerBeat + s.baseBar)| ≤ 1 / 2 :=
        abs_le.mpr ⟨by linarith, by linarith⟩
      linarith
  · simp only [beats2bars_F, beats, secs2beats_F]; ring

/-! ### the invariant along histories -/

theorem wf_step (st : St) (op : Op) (h : WF st.tc) : WF (step st op).1.tc := by
  cases op <;> simp only [step] <;> try exact h
  · rename_i v
    cases hr : set_tempo_F st.tc st.now v with
    | ok s' => simp only [liftSet]; exact (tempo_continuous h hr).2.2.2
    | error e =>
      obtain ⟨e, s'⟩ := e
      simp only [liftSet]
      unfold set_tempo_F at hr
      split_ifs at hr <;> simp only [Except.error.injEq, Prod.mk.injEq] at hr <;> (rw [← hr.2]; exact h)
  · rename_i v
    cases hr : etempo_F st.tc st.now v with
    | ok s' => simp only [liftSet]; exact (etempo_continuous hr).2.2
    | error e =>
      obtain ⟨e, s'⟩ := e
      simp only [liftSet]
      unfold etempo_F at hr
      split_ifs at hr <;> simp only [Except.error.injEq, Prod.mk.injEq] at hr <;> (rw [← hr.2]; exact h)
  · rename_i v
    cases hr : set_beats_F st.tc st.now v with
    | ok s' => simp only [liftSet]; exact (beats_set hr).2.2
    | error e =>
      obtain ⟨e, s'⟩ := e
      exfalso
      unfold set_beats_F at hr
      simp only [] at hr
      split_ifs at hr with h0
      exact h.1 h0
  · rename_i v
    cases hr : set_beats_per_bar_F st.tc st.now v with
    | ok s' => simp only [liftSet]; exact (meter_change hr).2.2.2.2.1 h
    | error e =>
      obtain ⟨e, s'⟩ := e
      simp only [liftSet]
      unfold set_beats_per_bar_F at hr
      simp only [] at hr
      split_ifs at hr <;> simp only [Except.error.injEq, Prod.mk.injEq] at hr
      rw [← hr.2]; exact h
  all_goals (rename_i x; cases x <;> exact h)

/-! ### next_time_on_grid -/

theorem mod_FF_small (a b : ℚ) (h0 : 0 ≤ a) (h1 : a < b) : mod_FF a b = a := by
  unfold mod_FF
  simp only [Int.cast_zero]
  rw [if_neg (by linarith), if_neg (by linarith)]

theorem mod_FF_neg_small (a b : ℚ) (h0 : a < 0) (h1 : -b < a) : mod_FF a b = a + b := by
  unfold mod_FF
  simp only [Int.cast_zero]
  rw [if_neg (by linarith), if_pos h0, if_pos (by linarith)]

theorem mod_II_cast (a b : ℤ) (hb : 0 < b) : ((mod_II a b : ℤ) : ℚ) = mod_FF a b := by
  have hbq : (0 : ℚ) < b := by exact_mod_cast hb
  obtain ⟨h0, h1, k, hk⟩ := mod_FF_spec a b hbq
  rw [mod_II_eq_emod a b hb]
  have e0 := Int.emod_nonneg a hb.ne'
  have e1 := Int.emod_lt_of_pos a hb
  have e2 := Int.emod_add_mul_ediv a b
  have e0q : (0 : ℚ) ≤ ((a % b : ℤ) : ℚ) := by exact_mod_cast e0
  have e1q : ((a % b : ℤ) : ℚ) < b := by exact_mod_cast e1
  have e2q : ((a % b : ℤ) : ℚ) + b * ((a / b : ℤ) : ℚ) = a := by exact_mod_cast e2
  -- two residues in [0, b) that differ by a multiple of b are equal
  have hd : ((a % b : ℤ) : ℚ) - mod_FF a b = ((k - a / b : ℤ) : ℚ) * b := by push_cast; linarith
  have hk0 : k - a / b = 0 := by
    by_contra hne
    rcases lt_or_gt_of_ne hne with hlt | hgt
    · have : ((k - a / b : ℤ) : ℚ) ≤ -1 := by exact_mod_cast (by omega : k - a / b ≤ -1)
      nlinarith
    · have : (1 : ℚ) ≤ ((k - a / b : ℤ) : ℚ) := by exact_mod_cast (by omega : 1 ≤ k - a / b)
      nlinarith
  rw [hk0] at hd
  simp at hd
  linarith

theorem ntog_FFF_spec (s : TC) (q p ref r : ℚ) (hq : 0 < q) (hp1 : -q < p) (hp2 : p < q)
    (h : next_time_on_grid_FFF s q p ref = .ok r) :
    ref ≤ r ∧ (∃ k : ℤ, r = s.baseBarBeat + p + k * q) ∧
      ∀ m : ℤ, ref ≤ s.baseBarBeat + p + m * q → r ≤ s.baseBarBeat + p + m * q := by
  unfold next_time_on_grid_FFF at h
  simp only [Int.cast_zero, hq.ne', if_false, not_lt.mpr hq.le] at h
  -- both branches: r = K q + base + p' with p' = p (+ q), K q the least multiple ≥ ref - base - p'
  have key : ∀ p' : ℚ, 0 ≤ p' → p' < q → (∃ j : ℤ, p' = p + j * q) →
      r = roundup_FF (ref - s.baseBarBeat - mod_FF p' q) q + s.baseBarBeat + p' →
      ref ≤ r ∧ (∃ k : ℤ, r = s.baseBarBeat + p + k * q) ∧
        ∀ m : ℤ, ref ≤ s.baseBarBeat + p + m * q → r ≤ s.baseBarBeat + p + m * q := by
    intro p' h0 h1 ⟨j, hj⟩ hr
    rw [mod_FF_small p' q h0 h1] at hr
    obtain ⟨K, e, k1, k2⟩ := roundup_FF_spec (ref - s.baseBarBeat - p') q hq
    rw [e] at hr
    refine ⟨by linarith, ⟨K + j, by rw [hr, hj]; push_cast; ring⟩, ?_⟩
    intro m hm
    have hlt : ((K + j - 1 : ℤ) : ℚ) * q < (m : ℚ) * q := by push_cast; nlinarith
    have hlt' : ((K + j - 1 : ℤ) : ℚ) < (m : ℚ) := lt_of_mul_lt_mul_right hlt hq.le
    have hle : K + j - 1 < m := by exact_mod_cast hlt'
    have hle' : ((K + j : ℤ) : ℚ) ≤ (m : ℚ) := by exact_mod_cast (by omega : K + j ≤ m)
    rw [hr, hj]
    push_cast at hle'
    nlinarith
  split_ifs at h with hneg
  · simp only [Except.ok.injEq] at h
    have hp' := mod_FF_neg_small p q hneg hp1
    apply key (mod_FF p q) (by rw [hp']; linarith) (by rw [hp']; linarith) ⟨1, by rw [hp']; push_cast; ring⟩
    exact h.symm
  · simp only [Except.ok.injEq] at h
    apply key p (not_lt.mp hneg) hp2 ⟨0, by simp⟩
    exact h.symm

theorem ntog_FFF_quant0 (s : TC) (p ref : ℚ) : next_time_on_grid_FFF s 0 p ref = .ok (ref + p) := by
  unfold next_time_on_grid_FFF; simp

set_option linter.unusedSimpArgs false

/-- every int/float argument pattern computes what the all-float code computes on the converted values -/
macro "ntog_cast" hq:term : tactic =>
  `(tactic| (simp only [roundup_FI_eq, mod_FI_eq, mod_IF_eq, mod_II_cast _ _ $hq] <;> (try push_cast) <;>
             (try simp only [Int.cast_lt, Int.cast_le, Int.cast_inj, ge_iff_le, gt_iff_lt, Int.cast_eq_zero,
               Int.cast_lt_zero, Int.cast_pos, Int.cast_nonneg, Int.cast_nonpos])))

macro "ntog_castF" : tactic =>
  `(tactic| (simp only [roundup_FI_eq, mod_FI_eq, mod_IF_eq] <;> (try push_cast) <;>
             (try simp only [Int.cast_lt, Int.cast_le, Int.cast_inj, ge_iff_le, gt_iff_lt, Int.cast_eq_zero,
               Int.cast_lt_zero, Int.cast_pos, Int.cast_nonneg, Int.cast_nonpos])))

theorem ntog_III_eq (s : TC) (q p r : ℤ) (hq : 0 < q) :
    next_time_on_grid_III s q p r = next_time_on_grid_FFF s q p r := by
  unfold next_time_on_grid_III next_time_on_grid_FFF
  ntog_cast hq
theorem ntog_IIF_eq (s : TC) (q p : ℤ) (r : ℚ) (hq : 0 < q) :
    next_time_on_grid_IIF s q p r = next_time_on_grid_FFF s q p r := by
  unfold next_time_on_grid_IIF next_time_on_grid_FFF
  ntog_cast hq
theorem ntog_IFI_eq (s : TC) (q : ℤ) (p : ℚ) (r : ℤ) (hq : 0 < q) :
    next_time_on_grid_IFI s q p r = next_time_on_grid_FFF s q p r := by
  unfold next_time_on_grid_IFI next_time_on_grid_FFF
  ntog_cast hq
theorem ntog_IFF_eq (s : TC) (q : ℤ) (p r : ℚ) (hq : 0 < q) :
    next_time_on_grid_IFF s q p r = next_time_on_grid_FFF s q p r := by
  unfold next_time_on_grid_IFF next_time_on_grid_FFF
  ntog_cast hq
theorem ntog_FII_eq (s : TC) (q : ℚ) (p r : ℤ) :
    next_time_on_grid_FII s q p r = next_time_on_grid_FFF s q p r := by
  unfold next_time_on_grid_FII next_time_on_grid_FFF
  ntog_castF
theorem ntog_FIF_eq (s : TC) (q : ℚ) (p : ℤ) (r : ℚ) :
    next_time_on_grid_FIF s q p r = next_time_on_grid_FFF s q p r := by
  unfold next_time_on_grid_FIF next_time_on_grid_FFF
  ntog_castF
theorem ntog_FFI_eq (s : TC) (q p : ℚ) (r : ℤ) :
    next_time_on_grid_FFI s q p r = next_time_on_grid_FFF s q p r := by
  unfold next_time_on_grid_FFI next_time_on_grid_FFF
  ntog_castF

/-- the reference beat of a quantisation request: the given one, or the caller's current beat -/
def refBeat (s : TC) (now : ℚ) : Option Num → ℚ
  | some v => v.val
  | none => beats s now

theorem ntog_D_eq (s : TC) (now : ℚ) (q p : Num) (ref : Option Num) (hq : 0 < q.val) :
    next_time_on_grid_D s now q p ref = next_time_on_grid_FFF s q.val p.val (refBeat s now ref) := by
  match q, p, ref, hq with
  | .i q, .i p, some (.i r), hq => exact ntog_III_eq s q p r (by simpa [Num.val] using hq)
  | .i q, .i p, some (.f r), hq => exact ntog_IIF_eq s q p r (by simpa [Num.val] using hq)
  | .i q, .f p, some (.i r), hq => exact ntog_IFI_eq s q p r (by simpa [Num.val] using hq)
  | .i q, .f p, some (.f r), hq => exact ntog_IFF_eq s q p r (by simpa [Num.val] using hq)
  | .f q, .i p, some (.i r), _ => exact ntog_FII_eq s q p r
  | .f q, .i p, some (.f r), _ => exact ntog_FIF_eq s q p r
  | .f q, .f p, some (.i r), _ => exact ntog_FFI_eq s q p r
  | .f q, .f p, some (.f r), _ => rfl
  | .i q, .i p, none, hq => exact ntog_IIF_eq s q p (beats s now) (by simpa [Num.val] using hq)
  | .i q, .f p, none, hq => exact ntog_IFF_eq s q p (beats s now) (by simpa [Num.val] using hq)
  | .f q, .i p, none, _ => exact ntog_FIF_eq s q p (beats s now)
  | .f q, .f p, none, _ => rfl

/-! ### bars -/

theorem bars_beats (s : TC) (h : WFm s) (b : ℚ) : bars2beats_F s (beats2bars_F s b) = b := by
  obtain ⟨h0, h1⟩ := h
  unfold bars2beats_F beats2bars_F
  rw [h1]; field_simp; ring

theorem beats_bars (s : TC) (h : WFm s) (x : ℚ) : beats2bars_F s (bars2beats_F s x) = x := by
  obtain ⟨h0, h1⟩ := h
  unfold bars2beats_F beats2bars_F
  rw [h1]; field_simp; ring

theorem bars2beats_I_eq (s : TC) (k : ℤ) : bars2beats_I s k = bars2beats_F s k := rfl

theorem bars2beats_mono (s : TC) (hpos : 0 < s.beatsPerBar) {x y : ℚ} (h : x ≤ y) :
    bars2beats_F s x ≤ bars2beats_F s y := by
  unfold bars2beats_F; nlinarith

theorem next_bar_spec (s : TC) (h : WFm s) (hpos : 0 < s.beatsPerBar) (b : ℚ) :
    b ≤ next_bar_F s b ∧ next_bar_F s b < b + s.beatsPerBar ∧
    beats2bars_F s (next_bar_F s b) = (⌈beats2bars_F s b⌉ : ℚ) ∧
    ∀ x : ℚ, b ≤ x → (∃ k : ℤ, beats2bars_F s x = k) → next_bar_F s b ≤ x := by
  unfold next_bar_F
  rw [bars2beats_I_eq, ceil_F_eq]
  have hc1 : beats2bars_F s b ≤ (⌈beats2bars_F s b⌉ : ℚ) := Int.le_ceil _
  have hc2 : (⌈beats2bars_F s b⌉ : ℚ) < beats2bars_F s b + 1 := Int.ceil_lt_add_one _
  have e := bars_beats s h b
  refine ⟨?_, ?_, beats_bars s h _, ?_⟩
  · have := bars2beats_mono s hpos hc1
    rw [e] at this; exact this
  · have : bars2beats_F s (⌈beats2bars_F s b⌉ : ℚ) < bars2beats_F s (beats2bars_F s b + 1) := by
      unfold bars2beats_F; nlinarith
    rw [show bars2beats_F s (beats2bars_F s b + 1) = bars2beats_F s (beats2bars_F s b) + s.beatsPerBar by
      unfold bars2beats_F; ring, e] at this
    exact this
  · intro x hx ⟨k, hk⟩
    have hbx : beats2bars_F s b ≤ beats2bars_F s x := by
      obtain ⟨h0, h1⟩ := h
      unfold beats2bars_F
      have : 0 < s.barsPerBeat := by rw [h1]; positivity
      nlinarith
    rw [hk] at hbx
    have : ⌈beats2bars_F s b⌉ ≤ k := Int.ceil_le.mpr hbx
    have : (⌈beats2bars_F s b⌉ : ℚ) ≤ (k : ℚ) := by exact_mod_cast this
    have := bars2beats_mono s hpos this
    rw [← hk, bars_beats s h x] at this
    exact this

theorem bar_spec (s : TC) (now : ℚ) : bar s now = (⌊beats2bars_F s (beats s now)⌋ : ℚ) := by
  unfold bar; rw [floor_F_eq]

theorem beat_in_bar_spec (s : TC) (h : WFm s) (hpos : 0 < s.beatsPerBar) (now : ℚ) :
    0 ≤ beat_in_bar s now ∧ beat_in_bar s now < s.beatsPerBar ∧
    beats s now = bars2beats_F s (bar s now) + beat_in_bar s now := by
  have e := bars_beats s h (beats s now)
  have f1 : (⌊beats2bars_F s (beats s now)⌋ : ℚ) ≤ beats2bars_F s (beats s now) := Int.floor_le _
  have f2 : beats2bars_F s (beats s now) < (⌊beats2bars_F s (beats s now)⌋ : ℚ) + 1 := Int.lt_floor_add_one _
  unfold beat_in_bar
  rw [bar_spec]
  refine ⟨?_, ?_, by ring⟩
  · have := bars2beats_mono s hpos f1
    rw [e] at this; linarith
  · have : bars2beats_F s (beats2bars_F s (beats s now)) <
        bars2beats_F s ((⌊beats2bars_F s (beats s now)⌋ : ℚ) + 1) := by
      unfold bars2beats_F; nlinarith
    rw [e, show bars2beats_F s ((⌊beats2bars_F s (beats s now)⌋ : ℚ) + 1)
      = bars2beats_F s (⌊beats2bars_F s (beats s now)⌋ : ℚ) + s.beatsPerBar by unfold bars2beats_F; ring] at this
    linarith
end Sc3Verif.C12
