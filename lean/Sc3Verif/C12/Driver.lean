/-
C12 line-protocol driver:  `lake env lean --run Sc3Verif/C12/Driver.lean < ops`

  reset                              (echoed) start of a case
  init <tempo|-> <beats|-> <secs|-> <now>     rationals `p/q`
  wait d | tempo v | etempo v | beats v | bpb v
  q beats | q tempo | q beatdur | q ebeats | q bar | q bib
  q b2s x | q s2b x | q b2bars x | q bars2b x | q invb x | q invs x | q invbars x
  q nextbar <x|->
  q ntog <num> <num> <num|->         num = i:<int> | f:<p/q>
  q playat <num> <num> [entry-point[:spelling]]   clock.play / Routine.play / Routine.run / @routine.run / resume
  ticks d n                          (last line of a case) wake-up beats of a second routine yielding d, n times
Each op prints  `<ok|v:p/q|E:err> | now beats tempo baseBarBeat beatsPerBar baseBar`.
-/
import Sc3Verif.C12.Model
open Sc3Verif.C12 Sc3Verif.C12.Gen Sc3Verif.C15.Gen

def parseRat (s : String) : Option Rat :=
  match s.splitOn "/" with
  | [p] => do some ((← p.toInt?) : Rat)
  | [p, q] => do
      let n ← p.toInt?
      let d ← q.toNat?
      if d = 0 then none else some ((n : Rat) / (d : Rat))
  | _ => none

def parseOptRat (s : String) : Option (Option Rat) :=
  if s == "-" then some none else (parseRat s).map some

def parseNum (s : String) : Option Num :=
  if s.startsWith "i:" then (s.drop 2).toString.toInt?.map Num.i
  else if s.startsWith "f:" then (parseRat (s.drop 2).toString).map Num.f
  else none

def parseOptNum (s : String) : Option (Option Num) :=
  if s == "-" then some none else (parseNum s).map some

def fmtRat (q : Rat) : String :=
  if q.den = 1 then s!"{q.num}" else s!"{q.num}/{q.den}"

def fmtRes : Res → String
  | .ok => "ok"
  | .val v => s!"v:{fmtRat v}"
  | .err e => s!"E:{e}"

def snapshot (st : St) : String :=
  " | " ++ " ".intercalate ([st.now, st.beat, st.tc.tempo, st.tc.baseBarBeat, st.tc.beatsPerBar,
    st.tc.baseBar].map fmtRat)

def parseOp (ws : List String) : Option Op :=
  match ws with
  | ["wait", d] => do some (.wait (← parseRat d))
  | ["tempo", v] => do some (.setTempo (← parseRat v))
  | ["etempo", v] => do some (.etempo (← parseRat v))
  | ["beats", v] => do some (.setBeats (← parseRat v))
  | ["obeats", v] => do some (.setBeats (← parseRat v))     -- the same assignment from outside the clock's routines
  | ["bpb", v] => do some (.setBpb (← parseRat v))
  | ["q", "beats"] => some .qBeats
  | ["q", "tempo"] => some .qTempo
  | ["q", "beatdur"] => some .qBeatDur
  | ["q", "ebeats"] => some .qElapsedBeats
  | ["q", "bar"] => some .qBar
  | ["q", "bib"] => some .qBeatInBar
  | ["q", "b2s", x] => do some (.qB2s (← parseRat x))
  | ["q", "s2b", x] => do some (.qS2b (← parseRat x))
  | ["q", "b2bars", x] => do some (.qB2bars (← parseRat x))
  | ["q", "bars2b", x] => do some (.qBars2b (← parseRat x))
  | ["q", "invb", x] => do some (.qInvB (← parseRat x))
  | ["q", "invs", x] => do some (.qInvS (← parseRat x))
  | ["q", "invbars", x] => do some (.qInvBars (← parseRat x))
  | ["q", "nextbar", x] => do some (.qNextBar (← parseOptRat x))
  | ["q", "ntog", q, p, r] => do some (.qNtog (← parseNum q) (← parseNum p) (← parseOptNum r))
  | ["q", "playat", q, p] => do some (.qPlayAt (← parseNum q) (← parseNum p))
  | ["q", "playat", q, p, _via] => do some (.qPlayAt (← parseNum q) (← parseNum p))   -- entry point: same beat
  | _ => none

partial def loop (h : IO.FS.Stream) (out : IO.FS.Stream) (st : Option St) (b0 : Rat := 0) : IO Unit := do
  let line ← h.getLine
  if line.isEmpty then return ()
  let ws := (line.trimAscii.toString.splitOn " ").filter (· ≠ "")
  match ws with
  | ["reset"] => out.putStrLn "reset"; loop h out none
  | ["ticks", d, n] =>
    match parseRat d, n.toNat? with
    | some d, some n =>
      out.putStrLn ("ticks " ++ " ".intercalate ((tickBeats b0 d n).map fmtRat)); loop h out st b0
    | _, _ => out.putStrLn "bad-op"; loop h out st b0
  | ["init", t, b, s, n] =>
    match parseOptRat t, parseOptRat b, parseOptRat s, parseRat n with
    | some t, some b, some s, some n =>
      match TC.init t b s n with
      | .ok tc =>
        let st : St := { tc := tc, now := n, wakeBeat := beats tc n }
        out.putStrLn ("ok" ++ snapshot st); loop h out (some st) st.beat
      | .error e => out.putStrLn s!"E:{e}"; loop h out none
    | _, _, _, _ => out.putStrLn "bad-init"; loop h out none
  | _ =>
    match st, parseOp ws with
    | some st, some op =>
      let (st', r) := step st op
      out.putStrLn (fmtRes r ++ snapshot st'); loop h out (some st') b0
    | none, _ => out.putStrLn "no-clock"; loop h out none
    | _, none => out.putStrLn "bad-op"; loop h out st b0

def main : IO Unit := do
  loop (← IO.getStdin) (← IO.getStdout) none
