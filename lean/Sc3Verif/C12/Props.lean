/-
C12 — TempoClock time arithmetic and quantisation are consistent.

Property theorems only.  `TC` and every function named here are the definitions GENERATED from
`sc3/base/clock.py` (class TempoClock) by tools/py2lean.py — `beats2secs_F`, `secs2beats_F`,
`set_tempo_F`, `etempo_F`, `set_beats_F`, `set_beats_per_bar_F`, `next_time_on_grid_*`, `beats2bars_F`,
`bars2beats_F`, `bar`, `next_bar_F`, `beat_in_bar` — on top of the kernels generated from
`builtins.py`.  `St`/`step`/`run` (Model.lean) is a routine driving the clock through a history.
`WF s`: tempo ≠ 0 and beat_dur = 1/tempo; `WFm s`: beats_per_bar ≠ 0 and bars_per_beat its inverse;
both hold initially and along every history (`wf_history`, `wfm_history`).
-/
import Sc3Verif.C12.Lemmas
namespace Sc3Verif.C12
open Sc3Verif.C12.Gen Sc3Verif.C15.Gen Sc3Verif.C15

/-! ## one affine map between beats and seconds -/

/-- Converting there and back is the identity, in both directions. -/
theorem secs_beats_inverse (s : TC) (h : WF s) (b t : ℚ) :
    secs2beats_F s (beats2secs_F s b) = b ∧ beats2secs_F s (secs2beats_F s t) = t :=
  ⟨secs_beats s h b, beats_secs s h t⟩

/-- Beats advance at the current tempo: Δbeats = tempo · Δseconds. -/
theorem beats_advance_at_tempo (s : TC) (t d : ℚ) : beats s (t + d) - beats s t = s.tempo * d :=
  beats_affine s t d

/-- Setting the tempo leaves the current (beat, second) pair fixed: the caller's beat is unchanged and
    still converts to the caller's time; the new tempo is in force and the map stays proper. -/
theorem tempo_change_continuous (s s' : TC) (now v : ℚ) (hw : WF s) (h : set_tempo_F s now v = .ok s') :
    beats s' now = beats s now ∧ beats2secs_F s' (beats s now) = now ∧ s'.tempo = v ∧ WF s' :=
  tempo_continuous hw h

/-- `tempo = v` is rejected exactly for `v = 0`, a negative `v`, or a clock whose tempo is negative;
    a rejected call changes nothing. -/
theorem tempo_change_domain (s : TC) (now v : ℚ) :
    (v = 0 ∨ v < 0 ∨ s.tempo < 0 ↔ set_tempo_F s now v = .error ("ValueError", s)) ∧
    (¬ (v = 0 ∨ v < 0 ∨ s.tempo < 0) → ∃ s', set_tempo_F s now v = .ok s') := by
  unfold set_tempo_F
  constructor
  · constructor
    · intro h; split_ifs <;> first | rfl | (exfalso; rcases h with h | h | h <;> contradiction)
    · intro h; split_ifs at h with h1 h2 h3
      · exact Or.inl h1
      · exact Or.inr (Or.inr h2)
      · exact Or.inr (Or.inl h3)
  · intro h; push Not at h
    rw [if_neg h.1, if_neg (not_lt.mpr h.2.2), if_neg (not_lt.mpr h.2.1)]
    exact ⟨_, rfl⟩

/-- `etempo` (tempo change at the physical time) keeps the beat at that time. -/
theorem etempo_change_continuous (s s' : TC) (el v : ℚ) (h : etempo_F s el v = .ok s') :
    secs2beats_F s' el = secs2beats_F s el ∧ s'.tempo = v ∧ WF s' :=
  etempo_continuous h

/-- Setting `beats` makes the caller's current beat the given value, at the same tempo. -/
theorem beats_set_continuous (s s' : TC) (now v : ℚ) (h : set_beats_F s now v = .ok s') :
    beats s' now = v ∧ s'.tempo = s.tempo ∧ WF s' :=
  beats_set h

/-! ## quantisation -/

/-- MAIN: for `quant > 0` and `-quant < phase < quant`, every int/float argument combination and an
    explicit or implicit reference beat, `next_time_on_grid` returns the EARLIEST beat that is
    congruent to `phase` modulo `quant` counted from the last meter change and not before the
    reference beat. -/
theorem ntog_least (s : TC) (now : ℚ) (q p : Num) (ref : Option Num) (r : ℚ)
    (hq : 0 < q.val) (hp : -q.val < p.val ∧ p.val < q.val)
    (h : next_time_on_grid_D s now q p ref = .ok r) :
    refBeat s now ref ≤ r ∧
    (∃ k : ℤ, r = s.baseBarBeat + p.val + k * q.val) ∧
    ∀ m : ℤ, refBeat s now ref ≤ s.baseBarBeat + p.val + m * q.val → r ≤ s.baseBarBeat + p.val + m * q.val := by
  rw [ntog_D_eq s now q p ref hq] at h
  exact ntog_FFF_spec s q.val p.val _ r hq hp.1 hp.2 h

/-- … and it always returns one (never raises) on that domain. -/
theorem ntog_total (s : TC) (now : ℚ) (q p : Num) (ref : Option Num) (hq : 0 < q.val) :
    ∃ r, next_time_on_grid_D s now q p ref = .ok r := by
  rw [ntog_D_eq s now q p ref hq]
  unfold next_time_on_grid_FFF
  simp only [Int.cast_zero, hq.ne', if_false, not_lt.mpr hq.le]
  split_ifs <;> exact ⟨_, rfl⟩

/-- `quant = 0`: no quantisation, reference plus phase. -/
theorem ntog_quant0 (s : TC) (now : ℚ) (q p : Num) (ref : Option Num) (hq : q.val = 0) :
    next_time_on_grid_D s now q p ref = .ok (refBeat s now ref + p.val) := by
  match q, p, ref, hq with
  | .i q, .i p, some (.i r), hq =>
    have : q = 0 := by simpa [Num.val] using hq
    subst this; simp [next_time_on_grid_D, next_time_on_grid_III, refBeat, Num.val]
  | .i q, .i p, some (.f r), hq =>
    have : q = 0 := by simpa [Num.val] using hq
    subst this; simp [next_time_on_grid_D, next_time_on_grid_IIF, refBeat, Num.val]
  | .i q, .f p, some (.i r), hq =>
    have : q = 0 := by simpa [Num.val] using hq
    subst this; simp [next_time_on_grid_D, next_time_on_grid_IFI, refBeat, Num.val]
  | .i q, .f p, some (.f r), hq =>
    have : q = 0 := by simpa [Num.val] using hq
    subst this; simp [next_time_on_grid_D, next_time_on_grid_IFF, refBeat, Num.val]
  | .f q, .i p, some (.i r), hq =>
    have : q = 0 := by simpa [Num.val] using hq
    subst this; simp [next_time_on_grid_D, next_time_on_grid_FII, refBeat, Num.val]
  | .f q, .i p, some (.f r), hq =>
    have : q = 0 := by simpa [Num.val] using hq
    subst this; simp [next_time_on_grid_D, next_time_on_grid_FIF, refBeat, Num.val]
  | .f q, .f p, some (.i r), hq =>
    have : q = 0 := by simpa [Num.val] using hq
    subst this; simp [next_time_on_grid_D, next_time_on_grid_FFI, refBeat, Num.val]
  | .f q, .f p, some (.f r), hq =>
    have : q = 0 := by simpa [Num.val] using hq
    subst this; simp [next_time_on_grid_D, next_time_on_grid_FFF, refBeat, Num.val]
  | .i q, .i p, none, hq =>
    have : q = 0 := by simpa [Num.val] using hq
    subst this; simp [next_time_on_grid_D, next_time_on_grid_IIN, refBeat, Num.val]
  | .i q, .f p, none, hq =>
    have : q = 0 := by simpa [Num.val] using hq
    subst this; simp [next_time_on_grid_D, next_time_on_grid_IFN, refBeat, Num.val]
  | .f q, .i p, none, hq =>
    have : q = 0 := by simpa [Num.val] using hq
    subst this; simp [next_time_on_grid_D, next_time_on_grid_FIN, refBeat, Num.val]
  | .f q, .f p, none, hq =>
    have : q = 0 := by simpa [Num.val] using hq
    subst this; simp [next_time_on_grid_D, next_time_on_grid_FFN, refBeat, Num.val]

/-- `play(task, quant)` schedules the task at the beat `next_time_on_grid(quant, phase)` returns at the
    moment of the call; whatever proper beat↔second map is in force when the task is woken (it keeps
    its beat through later tempo / beats changes), the second it is woken at converts back to exactly
    that beat. -/
theorem play_quant_schedules_there (st : St) (q p : Num) (g : ℚ)
    (h : next_time_on_grid_D st.tc st.now q p none = .ok g) :
    (step st (.qPlayAt q p)).2 = .val g ∧ (step st (.qPlayAt q p)).1 = st ∧
    ∀ s' : TC, WF s' → secs2beats_F s' (beats2secs_F s' g) = g := by
  refine ⟨?_, ?_, fun s' hw => secs_beats s' hw g⟩ <;> simp only [step, h]

/-- Another routine on the same clock, started at beat `b0` and yielding `d` each time, is scheduled for
    the beats `b0 + k·d`; whatever proper map is in force when it is woken (the first routine may have
    changed tempo, beats or meter in between), the second it is woken at reads back exactly that beat. -/
theorem other_routine_keeps_its_beat (b0 d : ℚ) (n k : ℕ) (hk : k < n) (s' : TC) (hw : WF s') :
    (tickBeats b0 d n)[k]? = some (b0 + (k : ℚ) * d) ∧
    secs2beats_F s' (beats2secs_F s' (b0 + (k : ℚ) * d)) = b0 + (k : ℚ) * d := by
  refine ⟨?_, secs_beats s' hw _⟩
  simp [tickBeats, hk]

/-! ## bars -/

/-- Bar/beat conversions are mutually inverse. -/
theorem bars_beats_inverse (s : TC) (h : WFm s) (b x : ℚ) :
    bars2beats_F s (beats2bars_F s b) = b ∧ beats2bars_F s (bars2beats_F s x) = x :=
  ⟨bars_beats s h b, beats_bars s h x⟩

/-- `next_bar(b)` is never before `b`, less than one bar after it, is a bar line, and is the first
    bar line not before `b`. -/
theorem next_bar_ge (s : TC) (h : WFm s) (hpos : 0 < s.beatsPerBar) (b : ℚ) :
    b ≤ next_bar_F s b ∧ next_bar_F s b < b + s.beatsPerBar ∧
    (∃ k : ℤ, beats2bars_F s (next_bar_F s b) = k) ∧
    ∀ x : ℚ, b ≤ x → (∃ k : ℤ, beats2bars_F s x = k) → next_bar_F s b ≤ x := by
  obtain ⟨h1, h2, h3, h4⟩ := next_bar_spec s h hpos b
  exact ⟨h1, h2, ⟨_, h3⟩, h4⟩

/-- `next_bar()` without argument is never before the current beat. -/
theorem next_bar_current_ge (s : TC) (h : WFm s) (hpos : 0 < s.beatsPerBar) (now : ℚ) :
    beats s now ≤ next_bar_N s now :=
  (next_bar_spec s h hpos (beats s now)).1

/-- The current beat splits into its bar and a beat within the bar in `[0, beats_per_bar)`. -/
theorem bar_and_beat_in_bar (s : TC) (h : WFm s) (hpos : 0 < s.beatsPerBar) (now : ℚ) :
    (∃ k : ℤ, bar s now = k ∧ (k : ℚ) ≤ beats2bars_F s (beats s now) ∧ beats2bars_F s (beats s now) < k + 1) ∧
    0 ≤ beat_in_bar s now ∧ beat_in_bar s now < s.beatsPerBar ∧
    beats s now = bars2beats_F s (bar s now) + beat_in_bar s now := by
  refine ⟨⟨⌊beats2bars_F s (beats s now)⌋, bar_spec s now, Int.floor_le _, Int.lt_floor_add_one _⟩, ?_⟩
  exact beat_in_bar_spec s h hpos now

/-- A meter change re-bases the bar count at the current beat: the current beat becomes a bar line
    whose number is the integer nearest to the old bar position; beats keep flowing. -/
theorem meter_change_rebase (s s' : TC) (now v : ℚ) (h : set_beats_per_bar_F s now v = .ok s') :
    beats s' now = beats s now ∧ s'.baseBarBeat = beats s now ∧ s'.beatsPerBar = v ∧ WFm s' ∧
    (∃ k : ℤ, s'.baseBar = k ∧ 2 * |(k : ℚ) - beats2bars_F s (beats s now)| ≤ 1) ∧
    beats2bars_F s' (beats s' now) = s'.baseBar := by
  obtain ⟨h1, h2, h3, h4, _, h6, h7⟩ := meter_change h
  exact ⟨h1, h2, h3, h4, h6, h7⟩

/-! ## histories -/

theorem init_wf (tempo beats seconds : Option ℚ) (now : ℚ) (s : TC)
    (h : TC.init tempo beats seconds now = .ok s) : WF s ∧ WFm s ∧ 0 < s.tempo := by
  unfold TC.init at h
  split_ifs at h with hneg
  simp only [Except.ok.injEq] at h
  subst h
  have hpos : 0 < tempoOr1 tempo := by
    refine lt_of_le_of_ne (not_lt.mp hneg) (Ne.symm ?_)
    cases tempo with
    | none => simp [tempoOr1]
    | some v => by_cases hv : v = 0 <;> simp [tempoOr1, hv]
  exact ⟨⟨hpos.ne', rfl⟩, ⟨by norm_num, by norm_num⟩, hpos⟩

/-- Along EVERY history of waits, tempo / etempo / beats / meter changes (accepted or rejected) and
    queries the beat↔second map stays a proper affine map — so the theorems above apply at every
    instant of every history. -/
theorem wf_history (st : St) (ops : List Op) (h : WF st.tc) : WF (run st ops).1.tc := by
  induction ops generalizing st with
  | nil => exact h
  | cons o os ih =>
    simp only [run]
    exact ih _ (wf_step st o h)
/-- The meter stays usable along every history whose meter changes are non-zero. -/
theorem wfm_history (st : St) (ops : List Op) (h : WFm st.tc)
    (hops : ∀ v, Op.setBpb v ∈ ops → v ≠ 0) : WFm (run st ops).1.tc := by
  induction ops generalizing st with
  | nil => exact h
  | cons o os ih =>
    simp only [run]
    apply ih
    · cases o <;> simp only [step] <;> try exact h
      · rename_i v
        cases hr : set_tempo_F st.tc st.now v with
        | ok s' => simp only [liftSet]; obtain ⟨_, rfl⟩ := set_tempo_ok hr; exact h
        | error e =>
          obtain ⟨e, s'⟩ := e
          simp only [liftSet]
          unfold set_tempo_F at hr
          split_ifs at hr <;> simp only [Except.error.injEq, Prod.mk.injEq] at hr <;> (rw [← hr.2]; exact h)
      · rename_i v
        cases hr : etempo_F st.tc st.now v with
        | ok s' => simp only [liftSet]; obtain ⟨_, rfl⟩ := etempo_ok hr; exact h
        | error e =>
          obtain ⟨e, s'⟩ := e
          simp only [liftSet]
          unfold etempo_F at hr
          split_ifs at hr <;> simp only [Except.error.injEq, Prod.mk.injEq] at hr <;> (rw [← hr.2]; exact h)
      · rename_i v
        cases hr : set_beats_F st.tc st.now v with
        | ok s' => simp only [liftSet]; obtain ⟨_, rfl⟩ := set_beats_ok hr; exact h
        | error e =>
          obtain ⟨e, s'⟩ := e
          simp only [liftSet]
          unfold set_beats_F at hr
          simp only [] at hr
          split_ifs at hr <;> simp only [Except.error.injEq, Prod.mk.injEq] at hr
          rw [← hr.2]; exact h
      · rename_i v
        cases hr : set_beats_per_bar_F st.tc st.now v with
        | ok s' => simp only [liftSet]; exact (meter_change hr).2.2.2.1
        | error e =>
          exfalso
          unfold set_beats_per_bar_F at hr
          simp only [] at hr
          split_ifs at hr with h0
          exact hops v (List.mem_cons_self) h0
      all_goals (rename_i x; cases x <;> exact h)
    · intro v hv; exact hops v (List.mem_cons_of_mem _ hv)

/-- A routine that waits `d` beats is resumed `d` beats after the beat it was last resumed at
    (read in the clock's then current map), and `Δbeats = tempo · Δseconds` over the wait. -/
theorem wait_resumes_after_delta (st : St) (d : ℚ) (h : WF st.tc) :
    let st' := (step st (.wait d)).1
    st'.beat = st.wakeBeat + d ∧ st'.wakeBeat = st'.beat ∧ st'.tc = st.tc ∧
    st'.beat - st.beat = st.tc.tempo * (st'.now - st.now) := by
  have e : (step st (.wait d)).1.beat = st.wakeBeat + d := by
    simp only [step, St.beat, beats]; exact secs_beats st.tc h _
  refine ⟨e, ?_, ?_, ?_⟩
  · rw [e]; simp only [step]
  · simp only [step]
  · simp only [step, St.beat, beats, secs2beats_F]; ring

/-- `Sync`: the routine's own timeline and the clock agree (true until the routine itself sets `beats`). -/
def Sync (st : St) : Prop := st.wakeBeat = st.beat

/-- With the clock in sync, a wait of `d` beats advances the current beat by exactly `d`, takes
    `d / tempo` seconds, and tempo, etempo and meter changes (and queries) keep the routine in sync —
    so along any history without a `beats =` assignment every wait is exact. -/
theorem routine_timeline (st : St) (h : WF st.tc) (hs : Sync st) :
    (∀ d, ((step st (.wait d)).1).beat = st.beat + d ∧ Sync (step st (.wait d)).1 ∧
          (step st (.wait d)).1.now - st.now = d * st.tc.beatDur) ∧
    (∀ v, Sync (step st (.setTempo v)).1) ∧ (∀ v, Sync (step st (.etempo v)).1) ∧
    (∀ v, Sync (step st (.setBpb v)).1) := by
  refine ⟨?_, ?_, ?_, ?_⟩
  · intro d
    obtain ⟨h1, h2, _, _⟩ := wait_resumes_after_delta st d h
    refine ⟨by rw [h1, hs], h2, ?_⟩
    simp only [step, beats2secs_F]
    rw [hs]; simp only [St.beat, beats, secs2beats_F]
    obtain ⟨h0, hb⟩ := h
    rw [hb]; field_simp; ring
  · intro v
    simp only [step, Sync]
    cases hr : set_tempo_F st.tc st.now v with
    | ok s' =>
      simp only [liftSet, St.beat]
      rw [(tempo_continuous h hr).1]; exact hs
    | error e =>
      obtain ⟨e, s'⟩ := e
      simp only [liftSet, St.beat]
      unfold set_tempo_F at hr
      split_ifs at hr <;> simp only [Except.error.injEq, Prod.mk.injEq] at hr <;> (rw [← hr.2]; exact hs)
  · intro v
    simp only [step, Sync]
    cases hr : etempo_F st.tc st.now v with
    | ok s' =>
      simp only [liftSet, St.beat, beats]
      rw [(etempo_continuous hr).1]; exact hs
    | error e =>
      obtain ⟨e, s'⟩ := e
      simp only [liftSet, St.beat]
      unfold etempo_F at hr
      split_ifs at hr <;> simp only [Except.error.injEq, Prod.mk.injEq] at hr <;> (rw [← hr.2]; exact hs)
  · intro v
    simp only [step, Sync]
    cases hr : set_beats_per_bar_F st.tc st.now v with
    | ok s' =>
      simp only [liftSet, St.beat]
      rw [(meter_change hr).1]; exact hs
    | error e =>
      obtain ⟨e, s'⟩ := e
      simp only [liftSet, St.beat]
      unfold set_beats_per_bar_F at hr
      simp only [] at hr
      split_ifs at hr <;> simp only [Except.error.injEq, Prod.mk.injEq] at hr
      rw [← hr.2]
      simp only [beats, secs2beats_F]
      exact hs

/-! ## Non-vacuity: concrete instances -/

/-- the default clock: tempo 1, 4/4 -/
def tc0 : TC := { tempo := 1, beatDur := 1, baseSeconds := 0, baseBeats := 0,
                  beatsPerBar := 4, barsPerBeat := 1 / 4, baseBar := 0, baseBarBeat := 0 }

example : WF tc0 ∧ WFm tc0 := ⟨⟨by norm_num [tc0], by norm_num [tc0]⟩, ⟨by norm_num [tc0], by norm_num [tc0]⟩⟩
example : TC.init (some 2) none none 0 = .ok { tc0 with tempo := 2, beatDur := 1 / 2 } := by
  simp [TC.init, tempoOr1, secondsOr, beatsOr0, tc0]
/-- next multiple of 4 beats, one beat early: from beat 5/2 that is beat 3 -/
example : next_time_on_grid_D tc0 0 (.i 4) (.i (-1)) (some (.f (5/2))) = .ok 3 := by
  rw [ntog_D_eq _ _ _ _ _ (by norm_num [Num.val])]
  simp only [next_time_on_grid_FFF, refBeat, Num.val, tc0]
  norm_num [mod_FF, roundup_FF, floor_F_eq, ceil_F_eq]
example : next_bar_F tc0 (5 / 2) = 4 := by
  simp only [next_bar_F, bars2beats_I, beats2bars_F, ceil_F_eq, tc0]; norm_num
example : ∃ s', set_tempo_F tc0 3 2 = .ok s' ∧ beats s' 3 = 3 := by
  refine ⟨_, rfl, ?_⟩
  simp [beats, secs2beats_F, beats2secs_F, tc0]

end Sc3Verif.C12
