/-
C12 — executable model of a `TempoClock` driven by one routine (histories of tempo / beats /
meter changes, waits and queries).

Everything numeric is the code GENERATED from `sc3/base/clock.py` (`GenTempo.lean`, which in turn
uses the kernels generated from `builtins.py`).  Hand-written here, and tied by correspondence
only: `TempoClock.__init__` (`x or default` idioms) and what a `yield d` of a routine playing on
the clock does in non-real-time mode (`ClockTask._wakeup`: the routine is woken at
`beats2secs(secs2beats(now) + d)`).  In NRT mode physical time equals the logical time of the
running routine, so `elapsed = now`.
Core Lean only.
-/
import Sc3Verif.C12.GenTempo
namespace Sc3Verif.C12
open Sc3Verif.C12.Gen Sc3Verif.C15.Gen

/-- `tempo or 1.0` -/
def tempoOr1 : Option Rat → Rat
  | some v => if v = 0 then 1 else v
  | none => 1

/-- `seconds or current_tt._seconds` -/
def secondsOr (now : Rat) : Option Rat → Rat
  | some v => if v = 0 then now else v
  | none => now

/-- `beats or 0.0` -/
def beatsOr0 : Option Rat → Rat
  | some v => v
  | none => 0

/-- `TempoClock(tempo, beats, seconds)` created at logical time `now`
    (`tempo or 1.0`, `beats or 0.0`, `seconds or now`; a negative tempo is rejected). -/
def TC.init (tempo beats seconds : Option Rat) (now : Rat) : Except String TC :=
  if tempoOr1 tempo < 0 then .error "ValueError"
  else .ok {
    tempo := tempoOr1 tempo, beatDur := 1 / tempoOr1 tempo,
    baseSeconds := secondsOr now seconds, baseBeats := beatsOr0 beats,
    beatsPerBar := 4, barsPerBeat := 1 / 4, baseBarBeat := 0, baseBar := 0 }

/-- clock + the routine that drives it: its logical time `now` and the beat it was last resumed at
    (`ClockTask` / `TempoClock._run` keep the beat a task was scheduled at and re-schedule it at that
    beat plus the yielded delta, converted with the clock's then current beat↔second map — so a
    `beats = v` made by the routine does not move the routine's own next wake-up beat). -/
structure St where
  tc : TC
  now : Rat
  wakeBeat : Rat
deriving Repr

inductive Op where
  | wait (d : Rat)                 -- `yield d` (beats)
  | setTempo (v : Rat)             -- `clock.tempo = v`
  | etempo (v : Rat)               -- `clock.etempo(v)`
  | setBeats (v : Rat)             -- `clock.beats = v`
  | setBpb (v : Rat)               -- `clock.beats_per_bar = v`
  | qBeats | qTempo | qBeatDur | qElapsedBeats | qBar | qBeatInBar
  | qB2s (x : Rat) | qS2b (x : Rat) | qB2bars (x : Rat) | qBars2b (x : Rat)
  | qInvB (x : Rat)                -- secs2beats(beats2secs(x))
  | qInvS (x : Rat)                -- beats2secs(secs2beats(x))
  | qInvBars (x : Rat)             -- bars2beats(beats2bars(x))
  | qNextBar (x : Option Rat)
  | qNtog (quant phase : Num) (ref : Option Num)
  | qPlayAt (quant phase : Num)    -- the beat at which `clock.play(r, Quant(quant, phase))` wakes `r`

inductive Res where
  | ok
  | val (v : Rat)
  | err (e : String)
deriving Repr

/-- a setter that raises leaves the assignments it had already made -/
def liftSet (st : St) (r : Except (String × TC) TC) : St × Res :=
  match r with
  | .ok tc => ({ st with tc := tc }, .ok)
  | .error (e, tc) => ({ st with tc := tc }, .err e)

/-- the beat the driving routine is at -/
def St.beat (st : St) : Rat := beats st.tc st.now

def step (st : St) : Op → St × Res
  | .wait d =>       -- `ClockTask._wakeup`: `self.beats = self.beats + delta`, woken at `beats2secs(self.beats)`
    ({ st with now := beats2secs_F st.tc (st.wakeBeat + d), wakeBeat := st.wakeBeat + d }, .ok)
  | .setTempo v => liftSet st (set_tempo_F st.tc st.now v)
  | .etempo v => liftSet st (etempo_F st.tc st.now v)
  | .setBeats v => liftSet st (set_beats_F st.tc st.now v)
  | .setBpb v => liftSet st (set_beats_per_bar_F st.tc st.now v)
  | .qBeats => (st, .val st.beat)
  | .qTempo => (st, .val (tempo st.tc))
  | .qBeatDur => (st, .val (beat_dur st.tc))
  | .qElapsedBeats => (st, .val (elapsed_beats st.tc st.now))
  | .qBar => (st, .val (bar st.tc st.now))
  | .qBeatInBar => (st, .val (beat_in_bar st.tc st.now))
  | .qB2s x => (st, .val (beats2secs_F st.tc x))
  | .qS2b x => (st, .val (secs2beats_F st.tc x))
  | .qB2bars x => (st, .val (beats2bars_F st.tc x))
  | .qBars2b x => (st, .val (bars2beats_F st.tc x))
  | .qInvB x => (st, .val (secs2beats_F st.tc (beats2secs_F st.tc x)))
  | .qInvS x => (st, .val (beats2secs_F st.tc (secs2beats_F st.tc x)))
  | .qInvBars x => (st, .val (bars2beats_F st.tc (beats2bars_F st.tc x)))
  | .qNextBar (some x) => (st, .val (next_bar_F st.tc x))
  | .qNextBar none => (st, .val (next_bar_N st.tc st.now))
  | .qNtog q p r =>
    (st, match next_time_on_grid_D st.tc st.now q p r with | .ok v => .val v | .error e => .err e)
  | .qPlayAt q p =>   -- the beat at which the played task is woken (it keeps that beat through later changes)
    (st, match next_time_on_grid_D st.tc st.now q p none with
         | .ok v => .val v | .error e => .err e)

/-- The beats at which a second routine on the same clock, started at beat `b0` and yielding `d`
    every time, is woken: a scheduled task keeps its beat whatever tempo / beats / meter changes
    the other routine makes in between (`ClockTask.beats`, `TempoClock._task_queue`). -/
def tickBeats (b0 d : Rat) (n : Nat) : List Rat := (List.range n).map fun (k : Nat) => b0 + ((k : Int) : Rat) * d

/-- a whole history -/
def run (st : St) : List Op → St × List Res
  | [] => (st, [])
  | o :: os =>
    let (st1, r) := step st o
    let (st2, rs) := run st1 os
    (st2, r :: rs)

end Sc3Verif.C12
