/-
C04 — helper lemmas: the lag inputs of LagControl units.
-/
import Sc3Verif.C04.LemmasDef
namespace Sc3Verif.C04
open Sc3Verif.C03 (wrapExtend wrapExtend_length wrapExtend_getElem?)

/-- element `k` of the `u`-th block of a concatenation -/
theorem flatten_getElem?_block {α : Type} (l : List (List α)) (u k : Nat) (hu : u < l.length)
    (hk : k < l[u].length) : l.flatten[(l.take u).flatten.length + k]? = l[u][k]? := by
  induction l generalizing u with
  | nil => simp at hu
  | cons x rest ih =>
    cases u with
    | zero => simp [List.getElem?_append_left (by simpa using hk)]
    | succ u =>
      simp only [List.take_succ_cons, List.flatten_cons, List.length_append, List.getElem_cons_succ]
      rw [Nat.add_assoc, List.getElem?_append_right (by omega)]
      have : x.length + ((rest.take u).flatten.length + k) - x.length = (rest.take u).flatten.length + k := by omega
      rw [this]
      exact ih u (by simpa using hu) (by simpa using hk)

theorem flatMap_take_length_eq (more : List CUnit) (h : ∀ u ∈ more, u.lags.length = u.values.length) (n : Nat) :
    ((more.take n).flatMap (·.lags)).length = ((more.take n).flatMap (·.values)).length := by
  induction more generalizing n with
  | nil => simp
  | cons x rest ih =>
    cases n with
    | zero => simp
    | succ n =>
      simp only [List.take_succ_cons, List.flatMap_cons, List.length_append]
      rw [h x (by simp), ih (fun u hu => h u (by simp [hu]))]

/-- `groupLags` splits like the values do -/
theorem groupLags_append (a b : List CN) : groupLags (a ++ b) = groupLags a ++ groupLags b := by
  simp [groupLags]

theorem lagAt_wrapExtend (l : Lag) (hl : l ≠ .list []) (n j : Nat) (hj : j < n) :
    (wrapExtend l.asList n)[j]? = some (lagAt l j) := by
  rw [wrapExtend_getElem? _ _ _ (lag_asList_ne_nil hl), if_pos hj]
  cases l with
  | num v => simp [Lag.asList, lagAt, Nat.mod_one]
  | list vs =>
    simp only [Lag.asList, lagAt]
    have hne : vs ≠ [] := by intro h; exact hl (by rw [h])
    have : j % vs.length < vs.length := Nat.mod_lt _ (List.length_pos_iff.mpr hne)
    rw [List.getElem?_eq_getElem this]

/-- lag of the `j`-th channel of the kr parameter at position `i`, read from the flat lag list -/
theorem groupLags_at (cns : List CN) (hl : LagsOk cns) (i : Nat) (h : i < cns.length)
    (hr : cns[i].rate = .kr) (j : Nat) (hj : j < cns[i].size) :
    (groupLags (ofRate .kr cns))[gsize (cns.take i) .kr + j]? = some (lagAt cns[i].lag j) := by
  have hs := ofRate_split cns i h
  rw [hr] at hs
  rw [hs, groupLags_append]
  have hpre : LagsOk (ofRate .kr (cns.take i)) := by
    intro c hc
    exact hl c (List.mem_of_mem_take ((ofRate_sublist .kr _).subset hc))
  have hlen : (groupLags (ofRate .kr (cns.take i))).length = gsize (cns.take i) .kr :=
    groupLags_length _ hpre
  rw [List.getElem?_append_right (by omega), hlen]
  have : gsize (cns.take i) .kr + j - gsize (cns.take i) .kr = j := by omega
  rw [this]
  simp only [groupLags, List.flatMap_cons]
  have hwl := wrapExtend_length cns[i].lag.asList cns[i].size (lag_asList_ne_nil (hl _ (List.getElem_mem h)))
  rw [List.getElem?_append_left (by rw [hwl]; exact hj)]
  exact lagAt_wrapExtend _ (hl _ (List.getElem_mem h)) _ _ hj


/-- in a lagged control-rate step, the lag input behind proxy number `t` is entry `t` of the flat lag list -/
theorem kr_step_lag {g : List CN} {st st' : St} {idx idx' : List Nat} {args args' : List ArgVal}
    {ps : List Proxy} {more : List CUnit} (hi : Inv st)
    (gs : GroupStep g st st' idx idx' args args' ps more)
    (hl : more.flatMap (·.lags) = groupLags g)
    (hlen : ∀ u ∈ more, u.lags.length = u.values.length) (t : Nat) (ht : t < ps.length) :
    ∃ hp : ps[t].1 < st'.units.length, st'.units[ps[t].1].lags[ps[t].2]? = (groupLags g)[t]? := by
  obtain ⟨hlt, hsp, hk⟩ := gs.aligned t ht
  have hfr := gs.fresh t ht
  refine ⟨hlt, ?_⟩
  have hu : st'.units = st.units ++ more := gs.units
  have hlt' : ps[t].1 - st.units.length < more.length := by
    have : st'.units.length = st.units.length + more.length := by rw [hu]; simp
    omega
  have hget : st'.units[ps[t].1] = more[ps[t].1 - st.units.length] := by
    have : st'.units[ps[t].1] = (st.units ++ more)[ps[t].1]'(by rw [← hu]; exact hlt) := by
      congr 1
    rw [this, List.getElem_append_right hfr]
  -- the special index of that unit
  have hspec := gs.inv.special ps[t].1 hlt
  have htake : st'.units.take ps[t].1 = st.units ++ more.take (ps[t].1 - st.units.length) := by
    rw [hu, List.take_append, List.take_of_length_le hfr]
  rw [htake, List.flatMap_append, List.length_append, ← hi.controls] at hspec
  rw [hget] at hsp hk ⊢
  rw [hget] at hspec
  -- position in the flat lag list
  have hpos : t = ((more.take (ps[t].1 - st.units.length)).flatMap (·.lags)).length + ps[t].2 := by
    rw [flatMap_take_length_eq more hlen]; omega
  have hk' : ps[t].2 < more[ps[t].1 - st.units.length].lags.length := by
    rw [hlen _ (List.getElem_mem _)]; exact hk
  rw [← hl]
  have hb := flatten_getElem?_block (more.map (·.lags)) (ps[t].1 - st.units.length) ps[t].2
    (by simpa using hlt') (by simpa using hk')
  have e1 : (more.map (·.lags)).flatten = more.flatMap (·.lags) := by simp [List.flatMap_def]
  have e2 : ((more.map (·.lags)).take (ps[t].1 - st.units.length)).flatten =
      (more.take (ps[t].1 - st.units.length)).flatMap (·.lags) := by
    rw [← List.map_take]; simp [List.flatMap_def]
  rw [e1, e2] at hb
  conv => rhs; rw [hpos]
  rw [hb]; simp

/-- MAIN (lags): when some control-rate parameter of the level has a non-zero lag, the control-rate
    parameters are served by LagControl units and the lag input behind channel `j` of parameter `i`
    is `rates[i]` itself (a number) or its element `j mod length` (a list). -/
theorem buildLevel_lags {specs : Nat → Option Val} {st st' : St} {params : List Param}
    {rates : List RateSpec} {skip : Nat} {args : List ArgVal} (hi : Inv st)
    (h : buildLevel specs st params rates skip = .ok (st', args)) :
    let cns := argsToControls specs st.controls.length params rates skip
    lagged cns = true →
    ∀ i (h1 : i < cns.length) (h2 : i < args.length), cns[i].rate = .kr →
      ∀ j (hj : j < args[i].proxies.length),
        ∃ hp : args[i].proxies[j].1 < st'.units.length,
          st'.units[args[i].proxies[j].1].lags[args[i].proxies[j].2]? = some (lagAt cns[i].lag j) := by
  intro cns hlag i h1 h2 hr j hj
  unfold buildLevel at h
  dsimp only at h
  have hcns : argsToControls specs st.controls.length params rates skip = cns := rfl
  rw [hcns] at h
  have hn : Numbered 0 cns := mkCNs_numbered _ _ _ _ _
  have hlall : LagsOk cns := mkCNs_lagsOk _ _ _ _ _
  have hl : LagsOk (ofRate .kr cns) := fun c hc => hlall c ((ofRate_sublist .kr cns).subset hc)
  split at h
  · cases h
  · rename_i st1 idx1 args1 e1
    split at h
    · cases h
    · rename_i st2 idx2 args2 e2
      split at h
      · cases h
      · rename_i st3 idx3 args3 e3
        split at h
        · cases h
        · rename_i st4 idx4 args4 e4
          injection h with h; injection h with hst hargs
          subst hst hargs
          obtain ⟨ps1, m1, g1, _, _⟩ := buildIta_spec hi e1
          obtain ⟨ps2, m2, g2, _, _⟩ := buildIta_spec g1.inv e2
          obtain ⟨ps3, m3, g3, _, _⟩ := buildIta_spec g2.inv e3
          obtain ⟨ps4, m4, g4, _, c4, _⟩ := buildKr_spec g3.inv hl e4
          obtain ⟨hfl, hlens⟩ := c4 hlag
          -- lengths before the last step
          have len1 := assign_length (ofRate .ir cns) st.cindex ps1 (cns.map (·.index)) (cns.map fun _ => ArgVal.unset)
          rw [← g1.asg] at len1
          have len2 := assign_length (ofRate .tr cns) st1.cindex ps2 idx1 args1
          rw [← g2.asg] at len2
          have len3 := assign_length (ofRate .ar cns) st2.cindex ps3 idx2 args2
          rw [← g3.asg] at len3
          have l3a : idx3.length = cns.length := by rw [len3.1, len2.1, len1.1]; simp
          have l3b : args3.length = cns.length := by rw [len3.2, len2.2, len1.2]; simp
          have s4 := (step_at hn g4 l3a l3b i h1).2.2.1 hr
          have harg : args4[i] = mkArg cns[i] ((ps4.drop (gsize (cns.take i) .kr)).take cns[i].size) := by
            have := List.getElem?_eq_getElem h2
            rw [s4.2] at this; exact (Option.some.inj this).symm
          have hsplit := gsize_split cns i h1
          rw [hr] at hsplit
          have hple : gsize (cns.take i) .kr + cns[i].size ≤ ps4.length := by
            rw [g4.plen]; unfold gsize at hsplit ⊢; omega
          have hprox : args4[i].proxies = (ps4.drop (gsize (cns.take i) .kr)).take cns[i].size := by
            rw [harg, mkArg_proxies]
          have hjl : j < cns[i].size := by
            have : args4[i].proxies.length = cns[i].size := by
              rw [hprox]; simp [List.length_take, List.length_drop]; omega
            omega
          have ht : gsize (cns.take i) .kr + j < ps4.length := by omega
          have hpj : args4[i].proxies[j] = ps4[gsize (cns.take i) .kr + j] := by
            simp [hprox, List.getElem_take, List.getElem_drop]
          obtain ⟨hp, hlagv⟩ := kr_step_lag g3.inv g4 hfl (fun u hu => (hlens u hu).1) _ ht
          rw [hpj]
          refine ⟨hp, ?_⟩
          rw [hlagv]
          exact groupLags_at cns hlall i h1 hr j hjl

end Sc3Verif.C04
