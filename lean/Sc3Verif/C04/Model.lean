import Sc3Verif.C03.Model
/-
C04 — executable model of how `SynthDef` turns function parameters into controls
(sc3/synth/synthdef.py `_args_to_controls`, `_build_controls`, `_build_ugen_graph`/`wrap`,
name table and variant blocks of `_write_def`, `__call__`; sc3/synth/ugens/inout.py
`Control/TrigControl/AudioControl/LagControl`; utils `flat`, `reshape_like`, `wrap_extend`).

A definition is the list of its *levels* in control-creation order: the graph function itself,
then every function passed to `SynthDef.wrap`, in the order the wrap calls are executed
(pre-order of the wrap tree — a wrapped function is processed completely when `wrap` is called).
`_control_names` is saved/reset/restored per level, so `arg_num` is the position inside the level;
`_controls`, `_control_index`, `_all_control_names` and the unit list run through all levels.

Numbers (defaults, lags) are `Int` (the harness uses dyadic values scaled by 1024).  Names are ids.
Core Lean only — this file is loaded by the line-protocol driver.
-/
namespace Sc3Verif.C04
open Sc3Verif.C03 (wrapExtend)

abbrev Val := Int

/-- the four rate groups, in the order `_build_controls` creates them -/
inductive Rate where
  | ir | tr | ar | kr
deriving Repr, DecidableEq, Inhabited

/-- an entry of the `rates` argument (missing entries are padded with the number 0) -/
inductive RateSpec where
  | none                      -- `None`
  | name (r : Rate)           -- 'ir' | 'tr' | 'ar' | 'kr'
  | num (v : Val)             -- lag number
  | list (vs : List Val)      -- list of lags
deriving Repr, DecidableEq, Inhabited

inductive Dflt where
  | none                      -- no default (or an explicit `None`)
  | scalar (v : Val)
  | tuple (vs : List Val)     -- array control
deriving Repr, DecidableEq, Inhabited

structure Param where
  name : Nat
  annot : Option Rate
  dflt : Dflt
deriving Repr, DecidableEq, Inhabited

/-- `ControlName.lag` (`lag or 0.0`) -/
inductive Lag where
  | num (v : Val)
  | list (vs : List Val)
deriving Repr, DecidableEq, Inhabited

/-- `ControlName` -/
structure CN where
  name : Nat
  index : Nat
  rate : Rate
  vals : List Val             -- `as_list(default_value)`
  isArr : Bool                -- default_value is a list (array control)
  argNum : Nat
  lag : Lag
deriving Repr, DecidableEq, Inhabited

def CN.size (c : CN) : Nat := c.vals.length

inductive Cls where
  | control | trigControl | audioControl | lagControl
deriving Repr, DecidableEq, Inhabited

/-- a control unit: `_special_index`, `values`, and (LagControl) the lag inputs -/
structure CUnit where
  cls : Cls
  rate : Rate                 -- ir = 'scalar', ar = 'audio', tr/kr = 'control'
  special : Nat
  values : List Val
  lags : List Val
deriving Repr, DecidableEq, Inhabited

/-- an `OutputProxy`: (control unit number in creation order, output index) -/
abbrev Proxy := Nat × Nat

/-- what the body receives for one parameter -/
inductive ArgVal where
  | one (p : Proxy)
  | many (ps : List Proxy)
  | unset                      -- the `0` placeholder of `arguments = [0] * n`
deriving Repr, DecidableEq, Inhabited

inductive Err where
  | noChannels                 -- Control with zero values: "wrong number of channels (0)"
deriving Repr, DecidableEq, Inhabited

/-! ## `_args_to_controls` -/

/-- `rates += [0] * (len(names) - len(rates))`, then `None → 0.0` -/
def padRates (rates : List RateSpec) (n : Nat) : List RateSpec :=
  (rates ++ List.replicate (n - rates.length) (RateSpec.num 0)).map fun (r : RateSpec) =>
    match r with
    | RateSpec.none => RateSpec.num 0
    | r => r

def RateSpec.isName : RateSpec → Bool
  | .name _ => true
  | _ => false

/-- `ControlName(..., lag)` with `self.lag = lag or 0.0` -/
def lagOf : RateSpec → Lag
  | .num v => .num v
  | .list [] => .num 0
  | .list vs => .list vs
  | _ => .num 0                -- 'kr' → 0.0 ; (`none` was mapped to 0 by `padRates`)

/-- the `if lag == 'ir' or annot == 'ir' and not overridden … elif … else` chain -/
def classify (annot : Option Rate) (rs : RateSpec) : Rate × Lag :=
  let overridden := rs.isName
  if rs = .name .ir || (annot = some .ir && !overridden) then (.ir, .num 0)
  else if rs = .name .tr || (annot = some .tr && !overridden) then (.tr, .num 0)
  else if rs = .name .ar || (annot = some .ar && !overridden) then (.ar, .num 0)
  else (.kr, lagOf rs)

/-- `_get_valid_arg_values` + `_apply_metadata_specs`: the default value(s) of a parameter -/
def dfltVals (specs : Nat → Option Val) (p : Param) : List Val × Bool :=
  match p.dflt with
  | .none => ([match specs p.name with | some v => v | none => 0], false)
  | .scalar v => ([v], false)
  | .tuple vs => (vs, true)

/-- the loop `for i, name in enumerate(names)`; `n0` = `len(self._control_names)` so far,
    `ci` = `len(self._controls)` (the provisional index every new ControlName gets) -/
def mkCNs (specs : Nat → Option Val) (ci : Nat) : Nat → List Param → List RateSpec → List CN
  | _, [], _ => []
  | _, _ :: _, [] => []        -- unreachable: rates are padded to the number of names
  | n0, p :: ps, r :: rs =>
    let (rate, lag) := classify p.annot r
    let (vals, arr) := dfltVals specs p
    { name := p.name, index := ci, rate := rate, vals := vals, isArr := arr, argNum := n0, lag := lag }
      :: mkCNs specs ci (n0 + 1) ps rs

/-- `_args_to_controls(func, rates, skip_args)` -/
def argsToControls (specs : Nat → Option Val) (ci : Nat) (params : List Param) (rates : List RateSpec)
    (skip : Nat) : List CN :=
  let ps := params.drop skip
  mkCNs specs ci 0 ps (padRates rates ps.length)

/-! ## `_build_controls` -/

structure St where
  controls : List Val          -- `_controls`
  cindex : Nat                 -- `_control_index`
  units : List CUnit           -- control units in creation order
  names : List CN              -- `_all_control_names`
deriving Repr, Inhabited

def St.init : St := { controls := [], cindex := 0, units := [], names := [] }

/-- `utl.flat(values)` for the defaults of a group -/
def flatVals (g : List CN) : List Val := g.flatMap (·.vals)

/-- a control unit's `_init_ugen`: special index = `len(_controls)`, extend `_controls`,
    advance `_control_index` -/
def St.addUnit (st : St) (cls : Cls) (rate : Rate) (values lags : List Val) : St :=
  { st with units := st.units ++ [{ cls, rate, special := st.controls.length, values, lags }]
            controls := st.controls ++ values
            cindex := st.cindex + values.length }

/-- proxies `_init_outputs` hands out for unit number `u` with `n` outputs -/
def proxiesOf (u n : Nat) : List Proxy := (List.range n).map fun k => (u, k)

/-- the assignment loop shared by all groups:
    `cn.index = index; index += len(as_list(cn.default_value)); arguments[cn.arg_num] = ctrl_ugens[i]`
    where `ctrl_ugens = reshape_like(flat proxies, values)` hands out the proxies consecutively. -/
def assign : List CN → Nat → List Proxy → List Nat → List ArgVal → List Nat × List ArgVal
  | [], _, _, idx, args => (idx, args)
  | cn :: rest, index, ps, idx, args =>
    let mine := ps.take cn.size
    let v : ArgVal := if cn.isArr then .many mine else
      match mine with
      | [p] => .one p
      | _ => .many mine
    assign rest (index + cn.size) (ps.drop cn.size) (idx.set cn.argNum index) (args.set cn.argNum v)

/-- `build_ita_controls(cns, ctrl_class, method)` -/
def buildIta (cls : Cls) (rate : Rate) (g : List CN) (st : St) (idx : List Nat) (args : List ArgVal) :
    Except Err (St × List Nat × List ArgVal) :=
  if g = [] then .ok (st, idx, args)
  else
    let flat := flatVals g
    if flat = [] then .error .noChannels
    else
      let index := st.cindex
      let u := st.units.length
      let st' := st.addUnit cls rate flat []
      let r := assign g index (proxiesOf u flat.length) idx args
      .ok (st', r.1, r.2)

def Lag.asList : Lag → List Val
  | .num v => [v]
  | .list vs => vs

/-- `lags.extend(wrap_extend(as_list(cn.lag), valsize))` for every kr ControlName -/
def groupLags (g : List CN) : List Val := g.flatMap fun cn => wrapExtend cn.lag.asList cn.size

/-- `utils.clump(lst, 16)` -/
def clump16 (l : List Val) : List (List Val) :=
  if l = [] then [] else
    (List.range ((l.length + 15) / 16)).map fun i => (l.drop (16 * i)).take 16

/-- `LagControl.kr(values, lags)`: one unit per clump of 16 -/
def addLagUnits (st : St) : List (List Val) → List (List Val) → St × List Proxy
  | v :: vs, l :: ls =>
    let u := st.units.length
    let r := addLagUnits (st.addUnit .lagControl .kr v l) vs ls
    (r.1, proxiesOf u v.length ++ r.2)
  | _, _ => (st, [])

/-- the control-rate group -/
def buildKr (g : List CN) (st : St) (idx : List Nat) (args : List ArgVal) :
    Except Err (St × List Nat × List ArgVal) :=
  if g = [] then .ok (st, idx, args)
  else
    let flat := flatVals g
    let lags := groupLags g
    let index := st.cindex
    if lags.any (· != 0) then
      let r := addLagUnits st (clump16 flat) (clump16 lags)
      let a := assign g index r.2 idx args
      .ok (r.1, a.1, a.2)
    else if flat = [] then .error .noChannels
    else
      let u := st.units.length
      let st' := st.addUnit .control .kr flat []
      let a := assign g index (proxiesOf u flat.length) idx args
      .ok (st', a.1, a.2)

def ofRate (r : Rate) (cns : List CN) : List CN := cns.filter (·.rate = r)

/-- one level: `_args_to_controls` then `_build_controls`; returns the arguments the body gets -/
def buildLevel (specs : Nat → Option Val) (st : St) (params : List Param) (rates : List RateSpec)
    (skip : Nat) : Except Err (St × List ArgVal) :=
  let cns := argsToControls specs st.controls.length params rates skip
  let idx0 := cns.map (·.index)
  let args0 := cns.map fun _ => ArgVal.unset
  match buildIta .control .ir (ofRate .ir cns) st idx0 args0 with
  | .error e => .error e
  | .ok (st1, idx1, args1) =>
    match buildIta .trigControl .tr (ofRate .tr cns) st1 idx1 args1 with
    | .error e => .error e
    | .ok (st2, idx2, args2) =>
      match buildIta .audioControl .ar (ofRate .ar cns) st2 idx2 args2 with
      | .error e => .error e
      | .ok (st3, idx3, args3) =>
        match buildKr (ofRate .kr cns) st3 idx3 args3 with
        | .error e => .error e
        | .ok (st4, idx4, args4) =>
          let named := List.zipWith (fun (cn : CN) i => { cn with index := i }) cns idx4
          .ok ({ st4 with names := st4.names ++ named }, args4)

structure Level where
  params : List Param
  rates : List RateSpec
  skip : Nat
deriving Repr, Inhabited

/-- the whole definition: levels in the order the `wrap` calls run -/
def buildDef (specs : Nat → Option Val) : St → List Level → Except Err (St × List (List ArgVal))
  | st, [] => .ok (st, [])
  | st, l :: ls => do
    let (st', a) ← buildLevel specs st l.params l.rates l.skip
    let (st'', as) ← buildDef specs st' ls
    .ok (st'', a :: as)

/-! ## name table, variants, call -/

/-- name table of `_write_def`: (name, index) in `_all_control_names` order -/
def nameTable (st : St) : List (Nat × Nat) := st.names.map fun cn => (cn.name, cn.index)

/-- `allcns_map[cname]`: the last ControlName with that name -/
def lookupName (names : List CN) (n : Nat) : Option CN := names.reverse.find? (·.name = n)

/-- `varcontrols[index + i] = val` for `i, val in enumerate(values)` -/
def overlay (ctl : List Val) (index : Nat) : List Val → List Val
  | [] => ctl
  | v :: vs => overlay (ctl.set index v) (index + 1) vs

/-- one variant: `none` = "not writing more variants" (unknown control or too many values) -/
def variantBlock (st : St) : List Val → List (Nat × List Val) → Option (List Val)
  | ctl, [] => some ctl
  | ctl, (cname, values) :: rest =>
    match lookupName st.names cname with
    | none => none
    | some cn =>
      if values.length > cn.size then none
      else variantBlock st (overlay ctl cn.index values) rest

/-- the variants section: blocks for the longest valid prefix of the variants
    (`nameLen` = length of `name.variant`) -/
def variantBlocks (st : St) : List (Nat × List (Nat × List Val)) → List (List Val)
  | [] => []
  | (nameLen, pairs) :: rest =>
    if nameLen > 32 then []
    else match variantBlock st st.controls pairs with
      | none => []
      | some b => b :: variantBlocks st rest

/-- `SynthDef.__call__`: `[name_0, arg_0, name_1, arg_1, …] + [k_0, v_0, …]` -/
def callArgs {α : Type} (callable : List Nat) (args : List α) (kwargs : List (Nat × α)) : List (Nat × α) :=
  callable.zip args ++ kwargs

/-- the names `__call__` pairs positional arguments with: parameters of the top level function
    that are not consumed by `prepend` -/
def callableArgs (l : Level) : List Nat := (l.params.drop l.skip).map (·.name)

end Sc3Verif.C04
