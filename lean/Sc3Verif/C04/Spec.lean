/-
C04 — the abstract specification of the control layout, in closed form.

For one level with ControlNames `cns` (declaration order) built when `base` slots already exist:
the slots of the level are the four rate groups ir, tr, ar, kr in this order, each group holding
the values of its parameters in declaration order.  `slotOf cns base i` is the first slot of
parameter `i`.
-/
import Sc3Verif.C04.Model
namespace Sc3Verif.C04

/-- number of slots of the parameters of rate `r` -/
def gsize (cns : List CN) (r : Rate) : Nat := (flatVals (ofRate r cns)).length

/-- first slot of a rate group -/
def groupStart (cns : List CN) (base : Nat) : Rate → Nat
  | .ir => base
  | .tr => base + gsize cns .ir
  | .ar => base + gsize cns .ir + gsize cns .tr
  | .kr => base + gsize cns .ir + gsize cns .tr + gsize cns .ar

/-- first slot of the `i`-th parameter: start of its group + sizes of the earlier parameters of the group -/
def slotOf (cns : List CN) (base : Nat) (i : Nat) (r : Rate) : Nat :=
  groupStart cns base r + gsize (cns.take i) r

/-- order of the groups -/
def Rate.ord : Rate → Nat
  | .ir => 0 | .tr => 1 | .ar => 2 | .kr => 3

/-- the control unit class and rate that serves a group (`lagged`: some control-rate lag ≠ 0) -/
def groupCls (lagged : Bool) : Rate → Cls
  | .ir => .control | .tr => .trigControl | .ar => .audioControl
  | .kr => if lagged then .lagControl else .control

/-- the lag of channel `j` of a control-rate parameter: a number for every channel, a list cyclically -/
def lagAt (l : Lag) (j : Nat) : Val :=
  match l with
  | .num v => v
  | .list vs => match vs[j % vs.length]? with | some v => v | none => 0

/-- states reachable by building definitions: the slot array is the concatenation of the control
    units' values, every unit starts where the previous ones end, and the running index is the
    number of slots -/
structure Inv (st : St) : Prop where
  cindex : st.cindex = st.controls.length
  controls : st.controls = st.units.flatMap (·.values)
  special : ∀ k (h : k < st.units.length),
    st.units[k].special = ((st.units.take k).flatMap (·.values)).length

/-- a ControlName points at its default values -/
def PointsTo (controls : List Val) (cn : CN) : Prop :=
  (controls.drop cn.index).take cn.size = cn.vals

/-- proxy `(u, k)` is the output that reads slot `s` -/
def ReadsSlot (units : List CUnit) (p : Proxy) (s : Nat) : Prop :=
  ∃ h : p.1 < units.length, units[p.1].special + p.2 = s ∧ p.2 < units[p.1].values.length

/-- what the body must receive for a ControlName: one proxy (scalar) or a list (array), the
    `j`-th reading slot `index + j` -/
def ArgOk (units : List CUnit) (cn : CN) (a : ArgVal) : Prop :=
  ∃ ps : List Proxy, ps.length = cn.size ∧ (∀ j (h : j < ps.length), ReadsSlot units ps[j] (cn.index + j)) ∧
    (a = .many ps ∨ (cn.isArr = false ∧ ∃ p, ps = [p] ∧ a = .one p))

end Sc3Verif.C04
