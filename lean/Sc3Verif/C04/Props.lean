/-
C04 — Function parameters become correctly laid-out, correctly wired controls.
(placeholder: theorems follow)
-/
import Sc3Verif.C04.Model
namespace Sc3Verif.C04
end Sc3Verif.C04
