/-
C04 — Function parameters become correctly laid-out, correctly wired controls.

Property theorems only (helper lemmas are in `Lemmas*.lean`).  All statements quantify over every
signature: any number of parameters, any annotations, `rates` lists, defaults (missing, scalar,
arrays of any length), `prepend` counts, metadata defaults, and any sequence of levels (the graph
function and the functions passed to `SynthDef.wrap`, in wrap-call order).
-/
import Sc3Verif.C04.LemmasLag
namespace Sc3Verif.C04

/-- the ControlNames `_args_to_controls` makes for a level built when `base` slots exist -/
abbrev cnsOf (specs : Nat → Option Val) (base : Nat) (params : List Param) (rates : List RateSpec)
    (skip : Nat) : List CN := argsToControls specs base params rates skip

/-- The name table entries a level appends are its parameters in declaration order, each with the
    closed-form slot `slotOf` = start of its rate group + sizes of the earlier parameters of the
    same group; and the slot array grows by the four groups in the order ir, tr, ar, kr. -/
theorem level_indices_closed_form {specs : Nat → Option Val} {st st' : St} {params : List Param}
    {rates : List RateSpec} {skip : Nat} {args : List ArgVal} (hi : Inv st)
    (h : buildLevel specs st params rates skip = .ok (st', args)) :
    let cns := cnsOf specs st.controls.length params rates skip
    st'.names = st.names ++ cns.mapIdx (fun i cn => { cn with index := slotOf cns st.controls.length i cn.rate }) ∧
    st'.controls = st.controls ++ flatVals (ofRate .ir cns) ++ flatVals (ofRate .tr cns) ++
      flatVals (ofRate .ar cns) ++ flatVals (ofRate .kr cns) :=
  let lo := buildLevel_ok hi h
  ⟨lo.names, lo.controls⟩

/-- MAIN (layout): slots are laid out by rate group (ir, tr, ar, kr), inside a group in declaration
    order; the parameters' slot ranges do not overlap and stay inside the level's range. -/
theorem layout_by_rate_then_decl (cns : List CN) (base : Nat) (i j : Nat) (hi : i < cns.length)
    (hj : j < cns.length) :
    let slot := fun k (h : k < cns.length) => slotOf cns base k cns[k].rate
    (cns[i].rate.ord < cns[j].rate.ord → slot i hi + cns[i].size ≤ slot j hj) ∧
    (cns[i].rate = cns[j].rate → i < j → slot i hi + cns[i].size ≤ slot j hj) ∧
    base ≤ slot i hi ∧
    slot i hi + cns[i].size ≤ base + gsize cns .ir + gsize cns .tr + gsize cns .ar + gsize cns .kr := by
  refine ⟨?_, ?_, ?_, ?_⟩
  · intro h
    have h1 := slot_end_le cns base i hi
    have h2 := groupStart_mono cns base _ _ h
    simp only [slotOf]; simp only [slotOf] at h1; omega
  · intro hr hij
    have h1 := gsize_take_succ cns i hi
    have h2 := gsize_take_mono cns cns[i].rate (i + 1) j hij
    simp only [slotOf, ← hr]; omega
  · simp only [slotOf]
    cases cns[i].rate <;> simp [groupStart] <;> omega
  · have h1 := slot_end_le cns base i hi
    simp only [slotOf] at h1 ⊢
    cases hr : cns[i].rate <;> rw [hr] at h1 <;> simp [groupStart] at h1 ⊢ <;> omega

/-- every parameter that is not consumed by `prepend` becomes exactly one named control, in
    declaration order, whatever the length of `rates` -/
theorem names_in_declaration_order (specs : Nat → Option Val) (base : Nat) (params : List Param)
    (rates : List RateSpec) (skip : Nat) :
    (cnsOf specs base params rates skip).map (·.name) = (params.drop skip).map (·.name) :=
  mkCNs_names _ _ _ _ _ (padRates_length _ _)

/-- which rate group a parameter lands in: a rate name in `rates` wins over the annotation, the
    annotation over the default (control rate); lags only reach control-rate parameters -/
theorem classify_spec (annot : Option Rate) (rs : RateSpec) :
    (∀ r, rs = .name r → (classify annot rs).1 = r) ∧
    (rs.isName = false → (classify annot rs).1 = (match annot with | some a => a | none => .kr)) ∧
    ((classify annot rs).1 ≠ .kr → (classify annot rs).2 = .num 0) := by
  refine ⟨?_, ?_, ?_⟩
  · intro r h; subst h; cases r <;> cases annot <;> simp [classify, RateSpec.isName] <;> rename_i a <;> cases a <;> simp
  · intro h
    cases rs <;> simp [RateSpec.isName] at h <;> cases annot <;> simp [classify, RateSpec.isName] <;>
      rename_i a <;> cases a <;> simp
  · unfold classify
    simp only
    split
    · simp
    · split
      · simp
      · split
        · simp
        · simp

/-- the slot array is exactly the concatenation of the control units' values, every control unit
    starts where the previous ones end: the units' `[special, special + n)` partition the slots -/
theorem units_partition_slots {specs : Nat → Option Val} {st : St} {ls : List Level}
    {as : List (List ArgVal)} (h : buildDef specs St.init ls = .ok (st, as)) :
    st.controls = st.units.flatMap (·.values) ∧ st.cindex = st.controls.length ∧
    ∀ k (hk : k < st.units.length), st.units[k].special = ((st.units.take k).flatMap (·.values)).length :=
  let i := (buildDef_ok inv_init h).2
  ⟨i.controls, i.cindex, i.special⟩

/-- MAIN (name table): in every definition, every name table entry points at the slots holding
    that parameter's default values: `controls[index + j] = default[j]`. -/
theorem name_index_points_to_defaults {specs : Nat → Option Val} {st : St} {ls : List Level}
    {as : List (List ArgVal)} (h : buildDef specs St.init ls = .ok (st, as)) :
    ∀ cn ∈ st.names, ∀ j, j < cn.vals.length → st.controls[cn.index + j]? = cn.vals[j]? := by
  intro cn hcn j hj
  have hn : NamesOk St.init := by intro c hc; simp [St.init] at hc
  have := defOk_namesOk inv_init hn (buildDef_ok inv_init h).1 cn hcn
  unfold PointsTo CN.size at this
  have e : cn.vals[j]? = ((st.controls.drop cn.index).take cn.vals.length)[j]? := by rw [this]
  rw [e, List.getElem?_take_of_lt hj, List.getElem?_drop]

/-- MAIN (wiring): the value the body receives for parameter `i` of a level is one output proxy
    (scalar default) or a list of them (array default); its `j`-th element is output `k` of control
    unit `u` with `special u + k = index i + j`, `u` was created by this level, and `u` has the rate
    and class of the parameter's group (Control/ir, TrigControl, AudioControl, Control or
    LagControl/kr). -/
theorem body_receives_slots {specs : Nat → Option Val} {st st' : St} {params : List Param}
    {rates : List RateSpec} {skip : Nat} {args : List ArgVal} (hi : Inv st)
    (h : buildLevel specs st params rates skip = .ok (st', args)) :
    let cns := cnsOf specs st.controls.length params rates skip
    args.length = cns.length ∧
    ∀ i (h1 : i < cns.length) (h2 : i < args.length),
      ArgOk st'.units { cns[i] with index := slotOf cns st.controls.length i cns[i].rate } args[i] ∧
      ∀ p ∈ args[i].proxies, ∃ hp : p.1 < st'.units.length, st.units.length ≤ p.1 ∧
        st'.units[p.1].rate = cns[i].rate ∧ st'.units[p.1].cls = groupCls (lagged cns) cns[i].rate :=
  let lo := buildLevel_ok hi h
  ⟨lo.alen, fun i h1 h2 => ⟨lo.argOk i h1 h2, lo.served i h1 h2⟩⟩

/-- MAIN (lags): if some control-rate parameter of the level has a non-zero lag, the control-rate
    parameters are served by LagControl units (`body_receives_slots`, `groupCls`) and the lag input
    behind channel `j` of control-rate parameter `i` is its `rates` entry: the number itself, or
    element `j mod length` of the list (`lagAt`). -/
theorem lags_carried {specs : Nat → Option Val} {st st' : St} {params : List Param}
    {rates : List RateSpec} {skip : Nat} {args : List ArgVal} (hi : Inv st)
    (h : buildLevel specs st params rates skip = .ok (st', args)) :
    let cns := cnsOf specs st.controls.length params rates skip
    lagged cns = true →
    ∀ i (h1 : i < cns.length) (h2 : i < args.length), cns[i].rate = .kr →
      ∀ j (hj : j < args[i].proxies.length),
        ∃ hp : args[i].proxies[j].1 < st'.units.length,
          st'.units[args[i].proxies[j].1].lags[args[i].proxies[j].2]? = some (lagAt cns[i].lag j) :=
  buildLevel_lags hi h

/-- building further levels (wrapped functions) never changes what is already laid out: slots,
    units and name table only grow at the end, so the facts above stay true in the finished
    definition -/
theorem later_levels_keep_earlier {specs : Nat → Option Val} {st st' : St} {ls : List Level}
    {as : List (List ArgVal)} (hi : Inv st) (h : buildDef specs st ls = .ok (st', as)) :
    (∃ more, st'.units = st.units ++ more) ∧
    (∀ cn a, ArgOk st.units cn a → ArgOk st'.units cn a) := by
  obtain ⟨more, hm⟩ := defOk_units_mono (buildDef_ok hi h).1
  refine ⟨⟨more, hm⟩, ?_⟩
  rintro cn a ⟨ps, h1, h2, h3⟩
  exact ⟨ps, h1, fun j hj => by rw [hm]; exact readsSlot_mono (h2 j hj), h3⟩

/-- wrap nesting: the name table of the definition is the concatenation of the levels' tables in
    wrap-call order, each level built on the slots of the previous ones -/
theorem wrap_levels_concatenate {specs : Nat → Option Val} {st st1 st2 : St} {l : Level} {ls : List Level}
    {a : List ArgVal} {as : List (List ArgVal)} (hi : Inv st)
    (h1 : buildLevel specs st l.params l.rates l.skip = .ok (st1, a))
    (h2 : buildDef specs st1 ls = .ok (st2, as)) :
    buildDef specs st (l :: ls) = .ok (st2, a :: as) ∧ Inv st1 := by
  refine ⟨?_, (buildLevel_ok hi h1).inv⟩
  simp [buildDef, bind, Except.bind, h1, h2]

/-- the layout depends on the VALUE of `rates` only, and a list that was already padded / had its
    `None` entries resolved to 0 by an earlier build (what `_args_to_controls` computes internally)
    gives the same ControlNames as the original: reusing one rates object for several builds is
    harmless as long as the code resolves `None` to 0 and nothing else (the seeded change C04-r4m3
    resolved it to the annotation, in the caller's list). -/
theorem rates_padding_idempotent (rates : List RateSpec) (n : Nat) :
    padRates (padRates rates n) n = padRates rates n := by
  have hlen : n ≤ (padRates rates n).length := padRates_length rates n
  unfold padRates at hlen ⊢
  rw [Nat.sub_eq_zero_of_le hlen]
  simp only [List.replicate_zero, List.append_nil, List.map_map]
  apply List.map_congr_left
  intro r _
  cases r <;> rfl

/-! ## variants -/

/-- a variant block is the default slot array with exactly the named slots replaced -/
theorem variants_overlay (ctl : List Val) (index : Nat) (vs : List Val) :
    (overlay ctl index vs).length = ctl.length ∧
    ∀ i, (overlay ctl index vs)[i]? =
      if index ≤ i ∧ i < index + vs.length ∧ i < ctl.length then vs[i - index]? else ctl[i]? :=
  ⟨overlay_length ctl index vs, overlay_getElem? ctl index vs⟩

/-- a variant is written only if every name is a control and no value list is longer than the
    control; then its block is the successive overlay of its pairs, last pair last -/
theorem variant_block_spec (st : St) (ctl : List Val) (c : Nat) (vs : List Val)
    (rest : List (Nat × List Val)) (b : List Val)
    (h : variantBlock st ctl ((c, vs) :: rest) = some b) :
    ∃ cn, lookupName st.names c = some cn ∧ vs.length ≤ cn.size ∧
      variantBlock st (overlay ctl cn.index vs) rest = some b := by
  simp only [variantBlock] at h
  split at h
  · cases h
  · rename_i cn hcn
    split at h
    · cases h
    · exact ⟨cn, hcn, by omega, h⟩

theorem variant_block_length (st : St) (ctl : List Val) (pairs : List (Nat × List Val)) (b : List Val)
    (h : variantBlock st ctl pairs = some b) : b.length = ctl.length := by
  induction pairs generalizing ctl with
  | nil => simp [variantBlock] at h; rw [← h]
  | cons p rest ih =>
    obtain ⟨c, vs⟩ := p
    obtain ⟨cn, _, _, h'⟩ := variant_block_spec st ctl c vs rest b h
    rw [ih _ h', overlay_length]

/-- the variants section holds one full-size block per variant of the longest valid prefix: the
    count written equals the number of blocks (the definition stays well formed) -/
theorem variants_wellformed (st : St) (vars : List (Nat × List (Nat × List Val))) :
    (variantBlocks st vars).length ≤ vars.length ∧
    ∀ b ∈ variantBlocks st vars, b.length = st.controls.length := by
  induction vars with
  | nil => simp [variantBlocks]
  | cons v rest ih =>
    obtain ⟨n, pairs⟩ := v
    simp only [variantBlocks]
    split
    · simp
    · split
      · simp
      · rename_i b hb
        refine ⟨by simp; exact ih.1, ?_⟩
        intro b' hb'
        rcases List.mem_cons.mp hb' with rfl | h
        · exact variant_block_length st _ _ _ hb
        · exact ih.2 b' h

/-! ## calling the definition -/

/-- positional arguments are paired, in order, with the graph function's parameters that are
    controls (those not consumed by `prepend`); keyword pairs follow in order -/
theorem call_maps_args {α : Type} (top : Level) (args : List α) (kwargs : List (Nat × α)) :
    callArgs (callableArgs top) args kwargs =
      ((top.params.drop top.skip).map (·.name)).zip args ++ kwargs ∧
    (callArgs (callableArgs top) args kwargs).length =
      min (top.params.length - top.skip) args.length + kwargs.length := by
  simp [callArgs, callableArgs]

/-! ## non-vacuity -/

def exLevel : Level :=
  { params := [⟨0, none, .none⟩, ⟨1, some .ir, .scalar 1⟩, ⟨2, none, .tuple [2, 3]⟩, ⟨3, some .tr, .scalar 4⟩],
    rates := [.none, .num 5], skip := 1 }

/-- `def f(p0, a:'ir'=1, b=(2,3), c:'tr'=4)` with `rates=[None, 5]`, `prepend=[x]` -/
example : ∃ st as, buildDef (fun _ => none) St.init [exLevel] = .ok (st, as) ∧
    st.controls = [1, 4, 2, 3] ∧ nameTable st = [(1, 0), (2, 2), (3, 1)] ∧ st.units.length = 3 ∧
    as = [[.one (0, 0), .many [(2, 0), (2, 1)], .one (1, 0)]] :=
  ⟨_, _, rfl, rfl, rfl, rfl, rfl⟩

end Sc3Verif.C04
