/-
C04 line-protocol driver:  `lake env lean --run Sc3Verif/C04/Driver.lean < ops`
One output line per input line.

  reset
  spec <nameId> <val>
  level <skip> ; <param>* ; <rate>*      param = id:ann:dflt   ann ∈ - ir tr ar kr   dflt ∈ - | s<int> | t<int,…>
                                         rate  = N | ir | tr | ar | kr | n<int> | l<int,…>
  build                                  -> controls # names # units # args   (or `ERR …`)
  variant <nameLen> <id>=<v,…> …
  variants                               -> n # block # block …
  call <tok>* ; <id>=<tok> …             -> id=tok …
-/
import Sc3Verif.C04.Model
open Sc3Verif.C04

def parseInts (s : String) : Option (List Int) :=
  if s.isEmpty then some [] else (s.splitOn ",").mapM fun t => t.toInt?

def parseRate : String → Option Rate
  | "ir" => some .ir | "tr" => some .tr | "ar" => some .ar | "kr" => some .kr | _ => none

def parseParam (s : String) : Option Param :=
  match s.splitOn ":" with
  | [n, a, d] => do
    let name ← n.toNat?
    let annot ← if a == "-" then some none else (parseRate a).map some
    let dflt ← if d == "-" then some Dflt.none
      else if d.startsWith "s" then (d.drop 1).toString.toInt?.map Dflt.scalar
      else if d.startsWith "t" then (parseInts (d.drop 1).toString).map Dflt.tuple
      else none
    some { name, annot, dflt }
  | _ => none

def parseRateSpec (s : String) : Option RateSpec :=
  if s == "N" then some .none
  else match parseRate s with
    | some r => some (.name r)
    | none =>
      if s.startsWith "n" then (s.drop 1).toString.toInt?.map .num
      else if s.startsWith "l" then (parseInts (s.drop 1).toString).map .list
      else none

def showInts (l : List Int) (sep : String) : String := sep.intercalate (l.map toString)

def rateNum : Rate → Nat
  | .ir => 0 | .tr => 1 | .ar => 2 | .kr => 1

def clsName : Cls → String
  | .control => "Control" | .trigControl => "TrigControl" | .audioControl => "AudioControl"
  | .lagControl => "LagControl"

def showUnit (u : CUnit) : String :=
  s!"{clsName u.cls}/{rateNum u.rate}/{u.special}/{u.values.length}/{showInts u.lags ","}"

def showProxy (p : Proxy) : String := s!"{p.1}.{p.2}"

def showArg : ArgVal → String
  | .one p => showProxy p
  | .many ps => "[" ++ " ".intercalate (ps.map showProxy) ++ "]"
  | .unset => "UNSET"

structure DS where
  specs : List (Nat × Int) := []
  levels : List Level := []
  st : St := St.init
  variants : List (Nat × List (Nat × List Int)) := []

def specFn (l : List (Nat × Int)) (n : Nat) : Option Int := (l.find? (·.1 == n)).map (·.2)

def words (s : String) : List String := (s.splitOn " ").filter (· ≠ "")

def handle (ds : DS) (line : String) : DS × String :=
  match words line.trimAscii.toString with
  | ["reset"] => ({}, "ok")
  | ["spec", n, v] =>
    match n.toNat?, v.toInt? with
    | some n, some v => ({ ds with specs := ds.specs ++ [(n, v)] }, "ok")
    | _, _ => (ds, "bad-op")
  | "level" :: skip :: rest =>
    match skip.toNat?, (" ".intercalate rest).splitOn ";" with
    | some skip, [_, ps, rs] =>
      match (words ps).mapM parseParam, (words rs).mapM parseRateSpec with
      | some params, some rates => ({ ds with levels := ds.levels ++ [{ params, rates, skip }] }, "ok")
      | _, _ => (ds, "bad-op")
    | _, _ => (ds, "bad-op")
  | ["build"] =>
    match buildDef (specFn ds.specs) St.init ds.levels with
    | .error .noChannels => (ds, "ERR noChannels")
    | .ok (st, args) =>
      let names := " ".intercalate ((nameTable st).map fun (n, i) => s!"{n}:{i}")
      let units := " ".intercalate (st.units.map showUnit)
      let a := " | ".intercalate (args.map fun row => " ".intercalate (row.map showArg))
      ({ ds with st := st }, s!"{showInts st.controls " "} # {names} # {units} # {a}")
  | "variant" :: len :: pairs =>
    let ps := pairs.mapM fun p =>
      match p.splitOn "=" with
      | [n, vs] => do some ((← n.toNat?), (← parseInts vs))
      | _ => none
    match len.toNat?, ps with
    | some len, some ps => ({ ds with variants := ds.variants ++ [(len, ps)] }, "ok")
    | _, _ => (ds, "bad-op")
  | ["variants"] =>
    let bs := variantBlocks ds.st ds.variants
    (ds, s!"{bs.length}" ++ String.join (bs.map fun b => " # " ++ showInts b " "))
  | "call" :: rest =>
    match (" ".intercalate rest).splitOn ";" with
    | [as, ks] =>
      let kw := (words ks).mapM fun p =>
        match p.splitOn "=" with
        | [n, v] => do some ((← n.toNat?), v)
        | _ => none
      match kw, ds.levels with
      | some kw, top :: _ =>
        let r := callArgs (callableArgs top) (words as) kw
        (ds, " ".intercalate (r.map fun (n, v) => s!"{n}={v}"))
      | _, _ => (ds, "bad-op")
    | _ => (ds, "bad-op")
  | _ => (ds, "bad-op")

partial def loop (h : IO.FS.Stream) (out : IO.FS.Stream) (ds : DS) : IO Unit := do
  let line ← h.getLine
  if line.isEmpty then return ()
  let (ds', o) := handle ds line
  out.putStrLn o
  loop h out ds'

def main : IO Unit := do
  loop (← IO.getStdin) (← IO.getStdout) {}
