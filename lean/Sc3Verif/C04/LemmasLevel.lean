/-
C04 — helper lemmas: the control-rate group, one level, the whole definition.
-/
import Sc3Verif.C04.Lemmas
import Sc3Verif.C03.LemmasOps
namespace Sc3Verif.C04
open Sc3Verif.C03 (wrapExtend wrapExtend_length wrapExtend_getElem?)

/-- lags as produced by `_args_to_controls`: never an empty list (`lag or 0.0`) -/
def LagsOk (g : List CN) : Prop := ∀ cn ∈ g, cn.lag ≠ .list []

theorem lag_asList_ne_nil {l : Lag} (h : l ≠ .list []) : l.asList ≠ [] := by
  cases l with
  | num v => simp [Lag.asList]
  | list vs => simp only [Lag.asList]; intro h'; exact h (by rw [h'])

theorem groupLags_length (g : List CN) (h : LagsOk g) : (groupLags g).length = (flatVals g).length := by
  induction g with
  | nil => rfl
  | cons cn rest ih =>
    simp only [groupLags, flatVals, List.flatMap_cons, List.length_append]
    have h1 := wrapExtend_length cn.lag.asList cn.size (lag_asList_ne_nil (h cn (by simp)))
    have h2 := ih (fun c hc => h c (by simp [hc]))
    simp only [groupLags, flatVals] at h2
    rw [h1, h2]; rfl

theorem buildKr_spec {g : List CN} {st st' : St} {idx idx' : List Nat} {args args' : List ArgVal}
    (hi : Inv st) (hl : LagsOk g) (h : buildKr g st idx args = .ok (st', idx', args')) :
    ∃ ps more, GroupStep g st st' idx idx' args args' ps more ∧
      (∀ u ∈ more, u.rate = .kr ∧ u.cls = groupCls ((groupLags g).any (· != 0)) .kr) ∧
      ((groupLags g).any (· != 0) = true →
        more.flatMap (·.lags) = groupLags g ∧ ∀ u ∈ more, u.lags.length = u.values.length ∧ u.values.length ≤ 16) ∧
      ((groupLags g).any (· != 0) = false → ∀ u ∈ more, u.lags = []) := by
  unfold buildKr at h
  split at h
  · rename_i hg
    injection h with h; injection h with h1 h2; injection h2 with h2 h3
    subst hg h1 h2 h3
    exact ⟨[], [], ⟨hi, by simp [flatVals], by simp, rfl, by simp [flatVals], fun t ht => by simp at ht,
      fun t ht => by simp at ht, by simp [assign]⟩, by simp, by simp [groupLags], by simp⟩
  · dsimp only at h
    split at h
    · rename_i hlag
      injection h with h; injection h with h1 h2; injection h2 with h2 h3
      have hlen := groupLags_length g hl
      have hcl := clump16_length_eq hlen.symm
      obtain ⟨more, i1, i2, i3, i4, i5, i6, ifr, i7, i8, i9⟩ :=
        addLagUnits_spec (clump16 (flatVals g)) (clump16 (groupLags g)) st hi hcl.1
      rw [h1] at i1 i2 i3 i4 i6
      refine ⟨_, more, ⟨i1, ?_, i3, i4, ?_, i6, ifr, ?_⟩, ?_, ?_, ?_⟩
      · rw [i2, clump16_flatten]
      · rw [i5, clump16_flatten]
      · rw [← h2, ← h3]
      · intro u hu
        have := i9 u hu
        simp only [groupCls, hlag, if_true]
        exact ⟨this.2, this.1⟩
      · intro _
        refine ⟨?_, ?_⟩
        · have : more.flatMap (·.lags) = (more.map (·.lags)).flatten := by
            simp [List.flatMap_def]
          rw [this, i8, clump16_flatten]
        · intro u hu
          obtain ⟨k, hk, rfl⟩ := List.getElem_of_mem hu
          have e1 : (more.map (·.values))[k]'(by simpa using hk) = more[k].values := by simp
          have e2 : (more.map (·.lags))[k]'(by simpa using hk) = more[k].lags := by simp
          have hk1 : k < (clump16 (flatVals g)).length := by rw [← i7]; simpa using hk
          have hk2 : k < (clump16 (groupLags g)).length := by rw [← i8]; simpa using hk
          have e3 : (clump16 (flatVals g))[k] = more[k].values := by
            rw [← e1]; congr 1; exact i7.symm
          have e4 : (clump16 (groupLags g))[k] = more[k].lags := by
            rw [← e2]; congr 1; exact i8.symm
          refine ⟨?_, ?_⟩
          · rw [← e3, ← e4]; exact (hcl.2 k hk1 hk2).symm
          · rw [← e3]; exact clump16_length_le _ _ (List.getElem_mem _)
      · intro hf; rw [hf] at hlag; exact absurd hlag (by simp)
    · rename_i hlag
      split at h
      · cases h
      · injection h with h; injection h with h1 h2; injection h2 with h2 h3
        subst h1
        refine ⟨proxiesOf st.units.length (flatVals g).length,
          [{ cls := .control, rate := .kr, special := st.controls.length, values := flatVals g, lags := [] }],
          ⟨inv_addUnit hi _ _ _ _, by simp [St.addUnit], by simp only [St.addUnit], by simp [St.addUnit],
            proxiesOf_length _ _, aligned_addUnit _ _ _ _, fun t ht => by simp [proxiesOf], ?_⟩, ?_, ?_, ?_⟩
        · rw [← h2, ← h3]
        · intro u hu; simp at hu; subst hu
          simp only [groupCls]
          have : (groupLags g).any (· != 0) = false := by simpa using hlag
          simp [this]
        · intro hf; rw [hf] at hlag; exact absurd rfl hlag
        · intro _ u hu; simp at hu; subst hu; rfl


/-! ## one level -/

theorem gsize_split (cns : List CN) (i : Nat) (h : i < cns.length) :
    gsize cns cns[i].rate = gsize (cns.take i) cns[i].rate + cns[i].size +
      gsize (cns.drop (i + 1)) cns[i].rate := by
  unfold gsize
  rw [ofRate_split cns i h, flatVals_append]
  simp [flatVals, CN.size, Nat.add_assoc]

theorem flat_split (cns : List CN) (i : Nat) (h : i < cns.length) :
    flatVals (ofRate cns[i].rate cns) =
      flatVals (ofRate cns[i].rate (cns.take i)) ++ cns[i].vals ++
        flatVals (ofRate cns[i].rate (cns.drop (i + 1))) := by
  rw [ofRate_split cns i h, flatVals_append]
  simp [flatVals]

theorem argOk_of_aligned {units : List CUnit} {ps : List Proxy} {start a : Nat} (cn : CN) (idx : Nat)
    (hidx : idx = start + a)
    (hal : Aligned units ps start) (hle : a + cn.size ≤ ps.length) :
    ArgOk units { cn with index := idx } (mkArg cn ((ps.drop a).take cn.size)) := by
  subst hidx
  have hlen : ((ps.drop a).take cn.size).length = cn.size := by
    simp [List.length_take, List.length_drop]; omega
  refine ⟨(ps.drop a).take cn.size, by simpa [CN.size] using hlen, ?_, ?_⟩
  · intro j hj
    have hj' : a + j < ps.length := by rw [hlen] at hj; omega
    have : ((ps.drop a).take cn.size)[j] = ps[a + j] := by
      simp [List.getElem_take, List.getElem_drop]
    rw [this]
    have := hal (a + j) hj'
    simpa [Nat.add_assoc] using this
  · unfold mkArg
    by_cases harr : cn.isArr = true
    · simp [harr]
    · simp only [harr, Bool.false_eq_true, if_false]
      split
      · rename_i p hp
        exact Or.inr ⟨by simpa using harr, p, hp, rfl⟩
      · exact Or.inl rfl

/-- effect of one group step at position `i` of the level -/
theorem step_at {cns : List CN} (hn : Numbered 0 cns) {r : Rate} {st st' : St} {idx idx' : List Nat}
    {args args' : List ArgVal} {ps : List Proxy} {more : List CUnit}
    (gs : GroupStep (ofRate r cns) st st' idx idx' args args' ps more)
    (hl1 : idx.length = cns.length) (hl2 : args.length = cns.length) (i : Nat) (hi : i < cns.length) :
    idx'.length = cns.length ∧ args'.length = cns.length ∧
    (cns[i].rate = r →
      idx'[i]? = some (st.cindex + gsize (cns.take i) r) ∧
      args'[i]? = some (mkArg cns[i] ((ps.drop (gsize (cns.take i) r)).take cns[i].size))) ∧
    (cns[i].rate ≠ r → idx'[i]? = idx[i]? ∧ args'[i]? = args[i]?) := by
  have h1 : idx' = (assign (ofRate r cns) st.cindex ps idx args).1 := by rw [← gs.asg]
  have h2 : args' = (assign (ofRate r cns) st.cindex ps idx args).2 := by rw [← gs.asg]
  have hl := assign_length (ofRate r cns) st.cindex ps idx args
  have := assign_group cns hn r st.cindex ps idx args hl1 hl2 i hi
  rw [h1, h2]
  exact ⟨by rw [hl.1, hl1], by rw [hl.2, hl2], this.1, this.2⟩


/-- the ControlName of position `i` with its final index -/
def finalCN (cns : List CN) (base i : Nat) (cn : CN) : CN :=
  { cn with index := slotOf cns base i cn.rate }

/-- proxies contained in an argument value -/
def ArgVal.proxies : ArgVal → List Proxy
  | .one p => [p]
  | .many ps => ps
  | .unset => []

/-- some control-rate parameter of the level has a non-zero lag -/
def lagged (cns : List CN) : Bool := (groupLags (ofRate .kr cns)).any (· != 0)

structure LevelOk (cns : List CN) (st st' : St) (args : List ArgVal) : Prop where
  inv : Inv st'
  controls : st'.controls = st.controls ++ flatVals (ofRate .ir cns) ++ flatVals (ofRate .tr cns) ++
    flatVals (ofRate .ar cns) ++ flatVals (ofRate .kr cns)
  units : ∃ more, st'.units = st.units ++ more
  names : st'.names = st.names ++ cns.mapIdx (fun i cn => finalCN cns st.controls.length i cn)
  alen : args.length = cns.length
  argOk : ∀ i (h : i < cns.length) (h' : i < args.length),
    ArgOk st'.units (finalCN cns st.controls.length i cns[i]) args[i]
  served : ∀ i (h : i < cns.length) (h' : i < args.length), ∀ p ∈ args[i].proxies,
    ∃ hp : p.1 < st'.units.length, st.units.length ≤ p.1 ∧ st'.units[p.1].rate = cns[i].rate ∧
      st'.units[p.1].cls = groupCls (lagged cns) cns[i].rate

theorem mkArg_proxies (cn : CN) (mine : List Proxy) : (mkArg cn mine).proxies = mine := by
  unfold mkArg
  split
  · rfl
  · split <;> simp_all [ArgVal.proxies]

theorem getElem?_zipWith_index (cns : List CN) (idx : List Nat) (hl : idx.length = cns.length) (i : Nat)
    (h : i < cns.length) (v : Nat) (hv : idx[i]? = some v) :
    (List.zipWith (fun (cn : CN) i => { cn with index := i }) cns idx)[i]? = some { cns[i] with index := v } := by
  rw [List.getElem?_zipWith]
  simp [hv, h]


/-- per-position result of the group step that handles the rate of position `i` -/
theorem pos_result {cns : List CN} (hn : Numbered 0 cns) {r : Rate} {stP stN : St} {idxP idxN : List Nat}
    {argsP argsN : List ArgVal} {ps : List Proxy} {more later : List CUnit}
    (gs : GroupStep (ofRate r cns) stP stN idxP idxN argsP argsN ps more) (hiP : Inv stP)
    (hl1 : idxP.length = cns.length) (hl2 : argsP.length = cns.length) (i : Nat) (hi : i < cns.length)
    (hr : cns[i].rate = r) (base : Nat) (hbase : stP.cindex = groupStart cns base r) :
    idxN[i]? = some (slotOf cns base i r) ∧
    ∃ a, argsN[i]? = some a ∧ ArgOk (stN.units ++ later) (finalCN cns base i cns[i]) a ∧
      ∀ p ∈ a.proxies, ∃ hp : p.1 < (stN.units ++ later).length, stP.units.length ≤ p.1 ∧
        (stN.units ++ later)[p.1] ∈ more := by
  have sa := step_at hn gs hl1 hl2 i hi
  obtain ⟨h1, h2⟩ := sa.2.2.1 hr
  have hsplit := gsize_split cns i hi
  rw [hr] at hsplit
  have hple : gsize (cns.take i) r + cns[i].size ≤ ps.length := by
    rw [gs.plen]; unfold gsize at hsplit ⊢; omega
  refine ⟨by rw [h1, hbase]; rfl, _, h2, ?_, ?_⟩
  · have hal := aligned_mono (more := later) gs.aligned
    have := argOk_of_aligned (units := stN.units ++ later) (ps := ps) (start := stP.controls.length)
      (a := gsize (cns.take i) r) cns[i] (slotOf cns base i cns[i].rate)
      (by rw [hr]; unfold slotOf; rw [← hbase, hiP.cindex]) hal hple
    exact this
  · intro p hp
    rw [mkArg_proxies] at hp
    have hp' := List.mem_of_mem_take hp
    have hp'' := List.mem_of_mem_drop hp'
    obtain ⟨t, ht, rfl⟩ := List.getElem_of_mem hp''
    obtain ⟨hlt, _, _⟩ := gs.aligned t ht
    have hfr := gs.fresh t ht
    refine ⟨by simp; omega, hfr, ?_⟩
    rw [List.getElem_append_left hlt]
    have : stN.units[ps[t].1] = (stP.units ++ more)[ps[t].1]'(by rw [← gs.units]; exact hlt) := by
      congr 1; exact gs.units
    rw [this, List.getElem_append_right hfr]
    exact List.getElem_mem _


theorem level_of_steps {cns : List CN} (hn : Numbered 0 cns)
    {st0 st1 st2 st3 st4 : St} {idx0 idx1 idx2 idx3 idx4 : List Nat}
    {args0 args1 args2 args3 args4 : List ArgVal} {ps1 ps2 ps3 ps4 : List Proxy}
    {m1 m2 m3 m4 : List CUnit} (hi0 : Inv st0)
    (g1 : GroupStep (ofRate .ir cns) st0 st1 idx0 idx1 args0 args1 ps1 m1)
    (g2 : GroupStep (ofRate .tr cns) st1 st2 idx1 idx2 args1 args2 ps2 m2)
    (g3 : GroupStep (ofRate .ar cns) st2 st3 idx2 idx3 args2 args3 ps3 m3)
    (g4 : GroupStep (ofRate .kr cns) st3 st4 idx3 idx4 args3 args4 ps4 m4)
    (c1 : ∀ u ∈ m1, u.cls = .control ∧ u.rate = .ir)
    (c2 : ∀ u ∈ m2, u.cls = .trigControl ∧ u.rate = .tr)
    (c3 : ∀ u ∈ m3, u.cls = .audioControl ∧ u.rate = .ar)
    (c4 : ∀ u ∈ m4, u.rate = .kr ∧ u.cls = groupCls (lagged cns) .kr)
    (hl0 : idx0.length = cns.length) (ha0 : args0.length = cns.length) :
    LevelOk cns st0
      { st4 with names := st4.names ++ List.zipWith (fun (cn : CN) i => { cn with index := i }) cns idx4 }
      args4 := by
  -- lengths through the steps
  have hc : cns.length = 0 ∨ 0 < cns.length := Nat.eq_zero_or_pos _
  have len1 : idx1.length = cns.length ∧ args1.length = cns.length := by
    have := assign_length (ofRate .ir cns) st0.cindex ps1 idx0 args0
    rw [← g1.asg] at this; exact ⟨by rw [this.1, hl0], by rw [this.2, ha0]⟩
  have len2 : idx2.length = cns.length ∧ args2.length = cns.length := by
    have := assign_length (ofRate .tr cns) st1.cindex ps2 idx1 args1
    rw [← g2.asg] at this; exact ⟨by rw [this.1, len1.1], by rw [this.2, len1.2]⟩
  have len3 : idx3.length = cns.length ∧ args3.length = cns.length := by
    have := assign_length (ofRate .ar cns) st2.cindex ps3 idx2 args2
    rw [← g3.asg] at this; exact ⟨by rw [this.1, len2.1], by rw [this.2, len2.2]⟩
  have len4 : idx4.length = cns.length ∧ args4.length = cns.length := by
    have := assign_length (ofRate .kr cns) st3.cindex ps4 idx3 args3
    rw [← g4.asg] at this; exact ⟨by rw [this.1, len3.1], by rw [this.2, len3.2]⟩
  -- running index at the start of every group
  have b0 : st0.cindex = groupStart cns st0.controls.length .ir := hi0.cindex
  have b1 : st1.cindex = groupStart cns st0.controls.length .tr := by
    rw [g1.inv.cindex, g1.controls]; simp [groupStart, gsize]
  have b2 : st2.cindex = groupStart cns st0.controls.length .ar := by
    rw [g2.inv.cindex, g2.controls, g1.controls]; simp [groupStart, gsize, Nat.add_assoc]
  have b3 : st3.cindex = groupStart cns st0.controls.length .kr := by
    rw [g3.inv.cindex, g3.controls, g2.controls, g1.controls]; simp [groupStart, gsize, Nat.add_assoc]
  -- units
  have u4 : st4.units = st0.units ++ (m1 ++ m2 ++ m3 ++ m4) := by
    rw [g4.units, g3.units, g2.units, g1.units]; simp [List.append_assoc]
  -- per position
  have key : ∀ i (h : i < cns.length),
      idx4[i]? = some (slotOf cns st0.controls.length i cns[i].rate) ∧
      ∃ a, args4[i]? = some a ∧ ArgOk st4.units (finalCN cns st0.controls.length i cns[i]) a ∧
        ∀ p ∈ a.proxies, ∃ hp : p.1 < st4.units.length, st0.units.length ≤ p.1 ∧
          st4.units[p.1].rate = cns[i].rate ∧ st4.units[p.1].cls = groupCls (lagged cns) cns[i].rate := by
    intro i h
    have s1 := step_at hn g1 hl0 ha0 i h
    have s2 := step_at hn g2 len1.1 len1.2 i h
    have s3 := step_at hn g3 len2.1 len2.2 i h
    have s4 := step_at hn g4 len3.1 len3.2 i h
    rcases hr : cns[i].rate with _ | _ | _ | _
    · -- ir: set by step 1, untouched by 2,3,4
      have e2 := s2.2.2.2 (by rw [hr]; decide)
      have e3 := s3.2.2.2 (by rw [hr]; decide)
      have e4 := s4.2.2.2 (by rw [hr]; decide)
      have hu : st4.units = st1.units ++ (m2 ++ m3 ++ m4) := by
        rw [g4.units, g3.units, g2.units]; simp [List.append_assoc]
      obtain ⟨r1, a, r2, r3, r4⟩ := pos_result (later := m2 ++ m3 ++ m4) hn g1 hi0 hl0 ha0 i h hr _ b0
      rw [← hu] at r3 r4
      refine ⟨by rw [e4.1, e3.1, e2.1, r1], a, by rw [e4.2, e3.2, e2.2, r2], r3, ?_⟩
      intro p hp
      obtain ⟨q1, q2, q3⟩ := r4 p hp
      have := c1 _ q3
      exact ⟨q1, q2, this.2, by rw [this.1]; rfl⟩
    · -- tr
      have e3 := s3.2.2.2 (by rw [hr]; decide)
      have e4 := s4.2.2.2 (by rw [hr]; decide)
      have hu : st4.units = st2.units ++ (m3 ++ m4) := by
        rw [g4.units, g3.units]; simp [List.append_assoc]
      obtain ⟨r1, a, r2, r3, r4⟩ := pos_result (later := m3 ++ m4) hn g2 g1.inv len1.1 len1.2 i h hr _ b1
      rw [← hu] at r3 r4
      refine ⟨by rw [e4.1, e3.1, r1], a, by rw [e4.2, e3.2, r2], r3, ?_⟩
      intro p hp
      obtain ⟨q1, q2, q3⟩ := r4 p hp
      have := c2 _ q3
      have hge : st0.units.length ≤ p.1 := by
        have : st0.units.length ≤ st1.units.length := by rw [g1.units]; simp
        omega
      exact ⟨q1, hge, this.2, by rw [this.1]; rfl⟩
    · -- ar
      have e4 := s4.2.2.2 (by rw [hr]; decide)
      have hu : st4.units = st3.units ++ m4 := g4.units
      obtain ⟨r1, a, r2, r3, r4⟩ := pos_result (later := m4) hn g3 g2.inv len2.1 len2.2 i h hr _ b2
      rw [← hu] at r3 r4
      refine ⟨by rw [e4.1, r1], a, by rw [e4.2, r2], r3, ?_⟩
      intro p hp
      obtain ⟨q1, q2, q3⟩ := r4 p hp
      have := c3 _ q3
      have hge : st0.units.length ≤ p.1 := by
        have : st0.units.length ≤ st2.units.length := by rw [g2.units, g1.units]; simp
        omega
      exact ⟨q1, hge, this.2, by rw [this.1]; rfl⟩
    · -- kr
      have hu : st4.units = st4.units ++ [] := by simp
      obtain ⟨r1, a, r2, r3, r4⟩ := pos_result (later := []) hn g4 g3.inv len3.1 len3.2 i h hr _ b3
      rw [← hu] at r3 r4
      refine ⟨r1, a, r2, r3, ?_⟩
      intro p hp
      obtain ⟨q1, q2, q3⟩ := r4 p hp
      have := c4 _ q3
      have hge : st0.units.length ≤ p.1 := by
        have : st0.units.length ≤ st3.units.length := by rw [g3.units, g2.units, g1.units]; simp
        omega
      exact ⟨q1, hge, this.1, this.2⟩
  refine ⟨?_, ?_, ?_, ?_, len4.2, ?_, ?_⟩
  · exact ⟨g4.inv.cindex, g4.inv.controls, g4.inv.special⟩
  · show st4.controls = _
    rw [g4.controls, g3.controls, g2.controls, g1.controls]
  · exact ⟨_, u4⟩
  · show st4.names ++ _ = _
    rw [g4.names, g3.names, g2.names, g1.names]
    congr 1
    apply List.ext_getElem?
    intro i
    by_cases h : i < cns.length
    · rw [getElem?_zipWith_index cns idx4 len4.1 i h _ (key i h).1]
      simp [h, finalCN]
    · have h' : cns.length ≤ i := Nat.le_of_not_lt h
      rw [List.getElem?_eq_none (by simp [len4.1]; omega), List.getElem?_eq_none (by simp; omega)]
  · intro i h h'
    obtain ⟨_, a, ha, hok, _⟩ := key i h
    have : args4[i] = a := by
      have := List.getElem?_eq_getElem h'
      rw [ha] at this; exact (Option.some.inj this).symm
    rw [this]; exact hok
  · intro i h h' p hp
    obtain ⟨_, a, ha, _, hs⟩ := key i h
    have : args4[i] = a := by
      have := List.getElem?_eq_getElem h'
      rw [ha] at this; exact (Option.some.inj this).symm
    rw [this] at hp
    exact hs p hp


/-! ## `_args_to_controls` produces well numbered ControlNames with proper lags -/

theorem mkCNs_numbered (specs : Nat → Option Val) (ci n0 : Nat) (ps : List Param) (rs : List RateSpec) :
    Numbered n0 (mkCNs specs ci n0 ps rs) := by
  induction ps generalizing n0 rs with
  | nil => intro i h; simp [mkCNs] at h
  | cons p ps ih =>
    cases rs with
    | nil => intro i h; simp [mkCNs] at h
    | cons r rs =>
      intro i h
      simp only [mkCNs] at h ⊢
      cases i with
      | zero => simp
      | succ i =>
        have := ih (n0 + 1) rs i (by simpa using h)
        simp only [List.getElem_cons_succ]
        rw [this]; omega

theorem lagOf_ne (r : RateSpec) : lagOf r ≠ .list [] := by
  cases r with
  | list vs => cases vs <;> simp [lagOf]
  | _ => simp [lagOf]

theorem classify_lag_ne (a : Option Rate) (r : RateSpec) : (classify a r).2 ≠ .list [] := by
  unfold classify
  simp only
  split
  · simp
  · split
    · simp
    · split
      · simp
      · exact lagOf_ne r

theorem mkCNs_lagsOk (specs : Nat → Option Val) (ci n0 : Nat) (ps : List Param) (rs : List RateSpec) :
    LagsOk (mkCNs specs ci n0 ps rs) := by
  induction ps generalizing n0 rs with
  | nil => intro c h; simp [mkCNs] at h
  | cons p ps ih =>
    cases rs with
    | nil => intro c h; simp [mkCNs] at h
    | cons r rs =>
      intro c h
      simp only [mkCNs, List.mem_cons] at h
      rcases h with rfl | h
      · exact classify_lag_ne _ _
      · exact ih _ _ c h

theorem buildLevel_ok {specs : Nat → Option Val} {st st' : St} {params : List Param}
    {rates : List RateSpec} {skip : Nat} {args : List ArgVal} (hi : Inv st)
    (h : buildLevel specs st params rates skip = .ok (st', args)) :
    LevelOk (argsToControls specs st.controls.length params rates skip) st st' args := by
  unfold buildLevel at h
  dsimp only at h
  generalize hcns : argsToControls specs st.controls.length params rates skip = cns at h ⊢
  have hn : Numbered 0 cns := by rw [← hcns]; exact mkCNs_numbered _ _ _ _ _
  have hl : LagsOk (ofRate .kr cns) := by
    intro c hc
    have : c ∈ cns := (ofRate_sublist .kr cns).subset hc
    rw [← hcns] at this
    exact mkCNs_lagsOk _ _ _ _ _ c this
  split at h
  · cases h
  · rename_i st1 idx1 args1 h1
    split at h
    · cases h
    · rename_i st2 idx2 args2 h2
      split at h
      · cases h
      · rename_i st3 idx3 args3 h3
        split at h
        · cases h
        · rename_i st4 idx4 args4 h4
          injection h with h; injection h with hst hargs
          subst hst hargs
          obtain ⟨ps1, m1, g1, c1, _⟩ := buildIta_spec hi h1
          obtain ⟨ps2, m2, g2, c2, _⟩ := buildIta_spec g1.inv h2
          obtain ⟨ps3, m3, g3, c3, _⟩ := buildIta_spec g2.inv h3
          obtain ⟨ps4, m4, g4, c4, _⟩ := buildKr_spec g3.inv hl h4
          exact level_of_steps hn hi g1 g2 g3 g4 (fun u hu => ⟨(c1 u hu).1, (c1 u hu).2.1⟩)
            (fun u hu => ⟨(c2 u hu).1, (c2 u hu).2.1⟩) (fun u hu => ⟨(c3 u hu).1, (c3 u hu).2.1⟩)
            c4 (by simp) (by simp)


theorem padRates_length (rates : List RateSpec) (n : Nat) : n ≤ (padRates rates n).length := by
  simp [padRates]; omega

theorem mkCNs_names (specs : Nat → Option Val) (ci n0 : Nat) (ps : List Param) (rs : List RateSpec)
    (h : ps.length ≤ rs.length) : (mkCNs specs ci n0 ps rs).map (·.name) = ps.map (·.name) := by
  induction ps generalizing n0 rs with
  | nil => simp [mkCNs]
  | cons p ps ih =>
    cases rs with
    | nil => simp at h
    | cons r rs =>
      simp only [mkCNs, List.map_cons]
      rw [ih (n0 + 1) rs (by simpa using h)]

end Sc3Verif.C04
