/-
C04 — helper lemmas: name table points to defaults, whole definitions, variants.
-/
import Sc3Verif.C04.LemmasLevel
namespace Sc3Verif.C04

theorem pointsTo_of_split (A vals B : List Val) (cn : CN) (h : cn.vals = vals) (hidx : cn.index = A.length) :
    PointsTo (A ++ vals ++ B) cn := by
  unfold PointsTo CN.size
  rw [hidx, h, List.append_assoc, List.drop_left, List.take_left]

theorem pointsTo_append {c : List Val} {cn : CN} (x : List Val) (h : PointsTo c cn) : PointsTo (c ++ x) cn := by
  unfold PointsTo at h ⊢
  by_cases hz : cn.size = 0
  · have : cn.vals = [] := by unfold CN.size at hz; exact List.length_eq_zero_iff.mp hz
    simp [hz, this]
  · have hlen : ((c.drop cn.index).take cn.size).length = cn.size := by rw [h]; rfl
    simp only [List.length_take, List.length_drop] at hlen
    have hle : cn.index ≤ c.length := by omega
    rw [List.drop_append_of_le_length hle, List.take_append_of_le_length (by simp; omega)]
    exact h

/-- every new name table entry of a level points at its defaults -/
theorem level_pointsTo {cns : List CN} {st st' : St} {args : List ArgVal} (hi : Inv st)
    (lo : LevelOk cns st st' args) (i : Nat) (h : i < cns.length) :
    PointsTo st'.controls (finalCN cns st.controls.length i cns[i]) := by
  rw [lo.controls]
  have hf := flat_split cns i h
  have hv : (finalCN cns st.controls.length i cns[i]).vals = cns[i].vals := rfl
  have hs : (finalCN cns st.controls.length i cns[i]).index =
      groupStart cns st.controls.length cns[i].rate + gsize (cns.take i) cns[i].rate := rfl
  rcases hr : cns[i].rate with _ | _ | _ | _
  · rw [hr] at hf hs
    rw [hf]
    have := pointsTo_of_split (st.controls ++ flatVals (ofRate .ir (cns.take i))) cns[i].vals
      (flatVals (ofRate .ir (cns.drop (i + 1))) ++ flatVals (ofRate .tr cns) ++ flatVals (ofRate .ar cns) ++
        flatVals (ofRate .kr cns)) _ hv (by rw [hs]; simp [groupStart, gsize])
    simpa [List.append_assoc] using this
  · rw [hr] at hf hs
    rw [hf]
    have := pointsTo_of_split (st.controls ++ flatVals (ofRate .ir cns) ++ flatVals (ofRate .tr (cns.take i)))
      cns[i].vals
      (flatVals (ofRate .tr (cns.drop (i + 1))) ++ flatVals (ofRate .ar cns) ++ flatVals (ofRate .kr cns)) _ hv
      (by rw [hs]; simp [groupStart, gsize, Nat.add_assoc])
    simpa [List.append_assoc] using this
  · rw [hr] at hf hs
    rw [hf]
    have := pointsTo_of_split (st.controls ++ flatVals (ofRate .ir cns) ++ flatVals (ofRate .tr cns) ++
        flatVals (ofRate .ar (cns.take i))) cns[i].vals
      (flatVals (ofRate .ar (cns.drop (i + 1))) ++ flatVals (ofRate .kr cns)) _ hv
      (by rw [hs]; simp [groupStart, gsize, Nat.add_assoc])
    simpa [List.append_assoc] using this
  · rw [hr] at hf hs
    rw [hf]
    have := pointsTo_of_split (st.controls ++ flatVals (ofRate .ir cns) ++ flatVals (ofRate .tr cns) ++
        flatVals (ofRate .ar cns) ++ flatVals (ofRate .kr (cns.take i))) cns[i].vals
      (flatVals (ofRate .kr (cns.drop (i + 1)))) _ hv
      (by rw [hs]; simp [groupStart, gsize, Nat.add_assoc])
    simpa [List.append_assoc] using this

/-- invariant of whole builds: every name table entry points at its defaults -/
def NamesOk (st : St) : Prop := ∀ cn ∈ st.names, PointsTo st.controls cn

theorem namesOk_level {cns : List CN} {st st' : St} {args : List ArgVal} (hi : Inv st)
    (hn : NamesOk st) (lo : LevelOk cns st st' args) : NamesOk st' := by
  intro cn hcn
  rw [lo.names] at hcn
  rcases List.mem_append.mp hcn with h | h
  · have := hn cn h
    rw [lo.controls]
    simp only [List.append_assoc]
    exact pointsTo_append _ this
  · obtain ⟨i, hi', rfl⟩ := List.getElem_of_mem h
    simp only [List.length_mapIdx] at hi'
    simp only [List.getElem_mapIdx]
    exact level_pointsTo hi lo i hi'

/-- the levels' ControlNames as `buildDef` computes them, with the base of every level -/
def levelCNs (specs : Nat → Option Val) (base : Nat) (l : Level) : List CN :=
  argsToControls specs base l.params l.rates l.skip

/-- facts about a whole build, level by level -/
inductive DefOk (specs : Nat → Option Val) : St → List Level → St → List (List ArgVal) → Prop where
  | nil (st : St) : DefOk specs st [] st []
  | cons {st st1 st2 : St} {l : Level} {ls : List Level} {a : List ArgVal} {as : List (List ArgVal)} :
      LevelOk (levelCNs specs st.controls.length l) st st1 a → DefOk specs st1 ls st2 as →
      DefOk specs st (l :: ls) st2 (a :: as)

theorem buildDef_ok {specs : Nat → Option Val} {st st' : St} {ls : List Level}
    {as : List (List ArgVal)} (hi : Inv st) (h : buildDef specs st ls = .ok (st', as)) :
    DefOk specs st ls st' as ∧ Inv st' := by
  induction ls generalizing st as with
  | nil =>
    simp only [buildDef] at h
    injection h with h; injection h with h1 h2; subst h1 h2
    exact ⟨.nil _, hi⟩
  | cons l ls ih =>
    simp only [buildDef, bind, Except.bind] at h
    split at h
    · cases h
    · rename_i r hr
      obtain ⟨st1, a⟩ := r
      have lo := buildLevel_ok hi hr
      dsimp only at h
      split at h
      · cases h
      · rename_i r2 hr2
        obtain ⟨st2, as'⟩ := r2
        injection h with h; injection h with h1 h2; subst h1 h2
        obtain ⟨d, i2⟩ := ih lo.inv hr2
        exact ⟨.cons lo d, i2⟩

theorem defOk_namesOk {specs : Nat → Option Val} {st st' : St} {ls : List Level}
    {as : List (List ArgVal)} (hi : Inv st) (hn : NamesOk st) (d : DefOk specs st ls st' as) :
    NamesOk st' := by
  induction d with
  | nil => exact hn
  | cons lo _ ih => exact ih lo.inv (namesOk_level hi hn lo)

theorem defOk_units_mono {specs : Nat → Option Val} {st st' : St} {ls : List Level}
    {as : List (List ArgVal)} (d : DefOk specs st ls st' as) : ∃ more, st'.units = st.units ++ more := by
  induction d with
  | nil => exact ⟨[], by simp⟩
  | cons lo _ ih =>
    obtain ⟨m1, h1⟩ := lo.units
    obtain ⟨m2, h2⟩ := ih
    exact ⟨m1 ++ m2, by rw [h2, h1, List.append_assoc]⟩

end Sc3Verif.C04

namespace Sc3Verif.C04

/-! ## layout arithmetic -/

theorem gsize_take_mono (cns : List CN) (r : Rate) (i j : Nat) (hij : i ≤ j) :
    gsize (cns.take i) r ≤ gsize (cns.take j) r := by
  have : cns.take j = cns.take i ++ (cns.take j).drop i := by
    have h := (List.take_append_drop i (cns.take j)).symm
    rwa [List.take_take, Nat.min_eq_left hij] at h
  rw [this]
  unfold gsize
  rw [ofRate_append, flatVals_append, List.length_append]
  omega

theorem gsize_take_le (cns : List CN) (r : Rate) (i : Nat) : gsize (cns.take i) r ≤ gsize cns r := by
  have : cns = cns.take i ++ cns.drop i := (List.take_append_drop i cns).symm
  conv => rhs; rw [this]
  unfold gsize
  rw [ofRate_append, flatVals_append, List.length_append]
  omega

theorem gsize_take_succ (cns : List CN) (i : Nat) (h : i < cns.length) :
    gsize (cns.take (i + 1)) cns[i].rate = gsize (cns.take i) cns[i].rate + cns[i].size := by
  rw [List.take_succ_eq_append_getElem h]
  unfold gsize
  rw [ofRate_append, flatVals_append, List.length_append]
  simp [ofRate, flatVals, CN.size]

/-- end of parameter `i`'s slots is within its group -/
theorem slot_end_le (cns : List CN) (base i : Nat) (h : i < cns.length) :
    slotOf cns base i cns[i].rate + cns[i].size ≤ groupStart cns base cns[i].rate + gsize cns cns[i].rate := by
  have := gsize_split cns i h
  unfold slotOf; omega

theorem groupStart_mono (cns : List CN) (base : Nat) (r s : Rate) (h : r.ord < s.ord) :
    groupStart cns base r + gsize cns r ≤ groupStart cns base s := by
  cases r <;> cases s <;> simp [Rate.ord] at h <;> simp [groupStart] <;> omega

/-! ## variants -/

theorem overlay_length (ctl : List Val) (index : Nat) (vs : List Val) :
    (overlay ctl index vs).length = ctl.length := by
  induction vs generalizing ctl index with
  | nil => rfl
  | cons v vs ih => simp [overlay, ih]

theorem overlay_getElem? (ctl : List Val) (index : Nat) (vs : List Val) (i : Nat) :
    (overlay ctl index vs)[i]? =
      if index ≤ i ∧ i < index + vs.length ∧ i < ctl.length then vs[i - index]? else ctl[i]? := by
  induction vs generalizing ctl index with
  | nil =>
    have : ¬ (index ≤ i ∧ i < index + ([] : List Val).length ∧ i < ctl.length) := by simp; omega
    rw [if_neg this]; rfl
  | cons v vs ih =>
    simp only [overlay]
    rw [ih]
    simp only [List.length_set, List.length_cons]
    by_cases h1 : index + 1 ≤ i ∧ i < index + 1 + vs.length ∧ i < ctl.length
    · have h2 : index ≤ i ∧ i < index + (vs.length + 1) ∧ i < ctl.length := by omega
      rw [if_pos h1, if_pos h2]
      have : i - index = (i - (index + 1)) + 1 := by omega
      rw [this, List.getElem?_cons_succ]
    · rw [if_neg h1]
      by_cases h3 : i = index
      · subst h3
        by_cases h4 : i < ctl.length
        · have h2 : i ≤ i ∧ i < i + (vs.length + 1) ∧ i < ctl.length := by omega
          rw [if_pos h2]; simp [h4]
        · have h2 : ¬ (i ≤ i ∧ i < i + (vs.length + 1) ∧ i < ctl.length) := by omega
          rw [if_neg h2]
          rw [List.getElem?_eq_none (by simp; omega), List.getElem?_eq_none (by omega)]
      · have h2 : ¬ (index ≤ i ∧ i < index + (vs.length + 1) ∧ i < ctl.length) := by omega
        rw [if_neg h2, List.getElem?_set_ne (Ne.symm h3)]

end Sc3Verif.C04
