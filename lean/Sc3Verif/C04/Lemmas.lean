/-
C04 — helper lemmas: the assignment loop, the groups, the level.
-/
import Sc3Verif.C04.Spec
namespace Sc3Verif.C04

/-! ## the assignment loop -/

/-- the value handed to the body for a ControlName given its slice of proxies -/
def mkArg (cn : CN) (mine : List Proxy) : ArgVal :=
  if cn.isArr then .many mine else
    match mine with
    | [p] => .one p
    | _ => .many mine

theorem assign_cons (cn : CN) (rest : List CN) (index : Nat) (ps : List Proxy) (idx : List Nat)
    (args : List ArgVal) :
    assign (cn :: rest) index ps idx args =
      assign rest (index + cn.size) (ps.drop cn.size) (idx.set cn.argNum index)
        (args.set cn.argNum (mkArg cn (ps.take cn.size))) := by
  simp only [assign, mkArg]
  rfl

theorem assign_length (g : List CN) (index : Nat) (ps : List Proxy) (idx : List Nat) (args : List ArgVal) :
    (assign g index ps idx args).1.length = idx.length ∧ (assign g index ps idx args).2.length = args.length := by
  induction g generalizing index ps idx args with
  | nil => simp [assign]
  | cons cn rest ih =>
    rw [assign_cons]
    have := ih (index + cn.size) (ps.drop cn.size) (idx.set cn.argNum index)
      (args.set cn.argNum (mkArg cn (ps.take cn.size)))
    simpa using this

/-- positions that belong to no member of the group are not touched -/
theorem assign_other (g : List CN) (index : Nat) (ps : List Proxy) (idx : List Nat) (args : List ArgVal)
    (k : Nat) (hk : ∀ cn ∈ g, cn.argNum ≠ k) :
    (assign g index ps idx args).1[k]? = idx[k]? ∧ (assign g index ps idx args).2[k]? = args[k]? := by
  induction g generalizing index ps idx args with
  | nil => simp [assign]
  | cons cn rest ih =>
    rw [assign_cons]
    have h1 : cn.argNum ≠ k := hk cn (by simp)
    have := ih (index + cn.size) (ps.drop cn.size) (idx.set cn.argNum index)
      (args.set cn.argNum (mkArg cn (ps.take cn.size))) (fun c hc => hk c (by simp [hc]))
    rw [this.1, this.2]
    simp [h1]

/-- a member gets `index` + the sizes of the members before it, and the matching slice of proxies -/
theorem assign_member (g₁ : List CN) (cn : CN) (g₂ : List CN) (index : Nat) (ps : List Proxy)
    (idx : List Nat) (args : List ArgVal)
    (hnd : ((g₁ ++ cn :: g₂).map (·.argNum)).Nodup)
    (h1 : cn.argNum < idx.length) (h2 : cn.argNum < args.length) :
    (assign (g₁ ++ cn :: g₂) index ps idx args).1[cn.argNum]? = some (index + (flatVals g₁).length) ∧
    (assign (g₁ ++ cn :: g₂) index ps idx args).2[cn.argNum]? =
      some (mkArg cn ((ps.drop (flatVals g₁).length).take cn.size)) := by
  induction g₁ generalizing index ps idx args with
  | nil =>
    simp only [List.nil_append, assign_cons, flatVals, List.flatMap_nil, List.length_nil, Nat.add_zero,
      List.drop_zero]
    have hnot : ∀ c ∈ g₂, c.argNum ≠ cn.argNum := by
      simp only [List.nil_append, List.map_cons, List.nodup_cons, List.mem_map, not_exists, not_and] at hnd
      intro c hc h
      exact hnd.1 c hc h
    have := assign_other g₂ (index + cn.size) (ps.drop cn.size) (idx.set cn.argNum index)
      (args.set cn.argNum (mkArg cn (ps.take cn.size))) cn.argNum hnot
    rw [this.1, this.2]
    simp [h1, h2]
  | cons x g₁ ih =>
    simp only [List.cons_append, assign_cons]
    have hnd' : ((g₁ ++ cn :: g₂).map (·.argNum)).Nodup := by
      simp only [List.cons_append, List.map_cons, List.nodup_cons] at hnd
      exact hnd.2
    have := ih (index + x.size) (ps.drop x.size) (idx.set x.argNum index)
      (args.set x.argNum (mkArg x (ps.take x.size))) hnd' (by simpa using h1) (by simpa using h2)
    rw [this.1, this.2]
    simp only [flatVals, List.flatMap_cons, List.length_append, List.drop_drop]
    constructor
    · simp only [CN.size]; congr 1; omega
    · simp only [CN.size]

/-! ## groups of a level -/

theorem ofRate_append (r : Rate) (a b : List CN) : ofRate r (a ++ b) = ofRate r a ++ ofRate r b := by
  simp [ofRate]

theorem flatVals_append (a b : List CN) : flatVals (a ++ b) = flatVals a ++ flatVals b := by
  simp [flatVals]

/-- well numbered: `arg_num` is the position -/
def Numbered (o : Nat) (cns : List CN) : Prop := ∀ i (h : i < cns.length), cns[i].argNum = o + i

theorem numbered_nodup {o : Nat} {cns : List CN} (h : Numbered o cns) : (cns.map (·.argNum)).Nodup := by
  induction cns generalizing o with
  | nil => simp
  | cons c rest ih =>
    have h0 : c.argNum = o := by have := h 0 (by simp); simpa using this
    have hr : Numbered (o + 1) rest := by
      intro i hi
      have := h (i + 1) (by simpa using hi)
      simpa [Nat.add_assoc, Nat.add_comm 1 i] using this
    simp only [List.map_cons, List.nodup_cons, List.mem_map, not_exists, not_and]
    refine ⟨?_, ih hr⟩
    intro x hx
    obtain ⟨i, hi, rfl⟩ := List.getElem_of_mem hx
    rw [hr i hi, h0]; omega

theorem sublist_map_nodup {g cns : List CN} (hs : g.Sublist cns) (h : (cns.map (·.argNum)).Nodup) :
    (g.map (·.argNum)).Nodup :=
  (hs.map _).nodup h

theorem ofRate_sublist (r : Rate) (cns : List CN) : (ofRate r cns).Sublist cns := List.filter_sublist

/-- split a level at position `i` -/
theorem split_at (cns : List CN) (i : Nat) (h : i < cns.length) :
    cns = cns.take i ++ cns[i] :: cns.drop (i + 1) := by
  conv => lhs; rw [← List.take_append_drop i cns]
  congr 1
  exact List.drop_eq_getElem_cons h

theorem ofRate_split (cns : List CN) (i : Nat) (h : i < cns.length) :
    ofRate cns[i].rate cns =
      ofRate cns[i].rate (cns.take i) ++ cns[i] :: ofRate cns[i].rate (cns.drop (i + 1)) := by
  generalize hr : cns[i].rate = r
  have hs := split_at cns i h
  have : ofRate r cns = ofRate r (cns.take i ++ cns[i] :: cns.drop (i + 1)) := by rw [← hs]
  rw [this, ofRate_append]
  congr 1
  unfold ofRate
  rw [List.filter_cons]
  simp only [hr, decide_true, if_true]

/-- result of one group's assignment, seen from the level: members get their closed-form slot,
    everything else is untouched -/
theorem assign_group (cns : List CN) (hn : Numbered 0 cns) (r : Rate) (index : Nat) (ps : List Proxy)
    (idx : List Nat) (args : List ArgVal) (hl1 : idx.length = cns.length) (hl2 : args.length = cns.length)
    (i : Nat) (hi : i < cns.length) :
    (cns[i].rate = r →
      (assign (ofRate r cns) index ps idx args).1[i]? = some (index + gsize (cns.take i) r) ∧
      (assign (ofRate r cns) index ps idx args).2[i]? =
        some (mkArg cns[i] ((ps.drop (gsize (cns.take i) r)).take cns[i].size))) ∧
    (cns[i].rate ≠ r →
      (assign (ofRate r cns) index ps idx args).1[i]? = idx[i]? ∧
      (assign (ofRate r cns) index ps idx args).2[i]? = args[i]?) := by
  have hnum : cns[i].argNum = i := by simpa using hn i hi
  constructor
  · intro hr
    subst hr
    have hsplit := ofRate_split cns i hi
    have hnd := sublist_map_nodup (ofRate_sublist cns[i].rate cns) (numbered_nodup hn)
    rw [hsplit] at hnd ⊢
    have := assign_member _ cns[i] _ index ps idx args hnd (by omega) (by omega)
    rw [hnum] at this
    exact this
  · intro hr
    apply assign_other
    intro c hc heq
    have hc' : c ∈ cns ∧ c.rate = r := by simpa [ofRate] using hc
    obtain ⟨j, hj, rfl⟩ := List.getElem_of_mem hc'.1
    have : cns[j].argNum = j := by simpa using hn j hj
    rw [this] at heq
    subst heq
    exact hr hc'.2

end Sc3Verif.C04

namespace Sc3Verif.C04

/-! ## control units and the invariant -/

theorem inv_init : Inv St.init := by
  refine ⟨rfl, rfl, ?_⟩
  intro k h; simp [St.init] at h

theorem inv_addUnit {st : St} (h : Inv st) (cls : Cls) (rate : Rate) (values lags : List Val) :
    Inv (st.addUnit cls rate values lags) := by
  refine ⟨?_, ?_, ?_⟩
  · simp [St.addUnit, h.cindex]
  · simp [St.addUnit, h.controls]
  · intro k hk
    simp only [St.addUnit, List.length_append, List.length_singleton] at hk
    by_cases hlt : k < st.units.length
    · have := h.special k hlt
      simp only [St.addUnit]
      rw [List.getElem_append_left hlt, List.take_append_of_le_length (Nat.le_of_lt hlt)]
      exact this
    · have hk' : k = st.units.length := by omega
      subst hk'
      simp only [St.addUnit]
      rw [List.getElem_append_right (Nat.le_refl _)]
      simp [h.controls]

theorem readsSlot_mono {units more : List CUnit} {p : Proxy} {s : Nat} (h : ReadsSlot units p s) :
    ReadsSlot (units ++ more) p s := by
  obtain ⟨h1, h2, h3⟩ := h
  refine ⟨by simp; omega, ?_, ?_⟩
  · rw [List.getElem_append_left h1]; exact h2
  · rw [List.getElem_append_left h1]; exact h3

/-- the proxies handed out for a group read consecutive slots from `start` -/
def Aligned (units : List CUnit) (ps : List Proxy) (start : Nat) : Prop :=
  ∀ t (h : t < ps.length), ReadsSlot units ps[t] (start + t)

theorem aligned_mono {units more : List CUnit} {ps : List Proxy} {s : Nat} (h : Aligned units ps s) :
    Aligned (units ++ more) ps s := fun t ht => readsSlot_mono (h t ht)

theorem aligned_addUnit {st : St} (cls : Cls) (rate : Rate) (values lags : List Val) :
    Aligned (st.addUnit cls rate values lags).units (proxiesOf st.units.length values.length)
      st.controls.length := by
  intro t ht
  simp only [proxiesOf, List.length_map, List.length_range] at ht
  simp only [proxiesOf, List.getElem_map, List.getElem_range]
  refine ⟨by simp [St.addUnit], ?_, ?_⟩
  · simp [St.addUnit]
  · simp [St.addUnit]; exact ht

theorem aligned_append {units : List CUnit} {ps qs : List Proxy} {s : Nat}
    (h1 : Aligned units ps s) (h2 : Aligned units qs (s + ps.length)) : Aligned units (ps ++ qs) s := by
  intro t ht
  by_cases hlt : t < ps.length
  · rw [List.getElem_append_left hlt]; exact h1 t hlt
  · have hge : ps.length ≤ t := Nat.le_of_not_lt hlt
    rw [List.getElem_append_right hge]
    have := h2 (t - ps.length) (by simp at ht; omega)
    have e : s + ps.length + (t - ps.length) = s + t := by omega
    rw [e] at this; exact this

/-- what a group step guarantees -/
structure GroupStep (g : List CN) (st st' : St) (idx idx' : List Nat) (args args' : List ArgVal)
    (ps : List Proxy) (more : List CUnit) : Prop where
  inv : Inv st'
  controls : st'.controls = st.controls ++ flatVals g
  units : st'.units = st.units ++ more
  names : st'.names = st.names
  plen : ps.length = (flatVals g).length
  aligned : Aligned st'.units ps st.controls.length
  fresh : ∀ t (h : t < ps.length), st.units.length ≤ ps[t].1
  asg : (idx', args') = assign g st.cindex ps idx args

theorem proxiesOf_length (u n : Nat) : (proxiesOf u n).length = n := by simp [proxiesOf]

theorem buildIta_spec {cls : Cls} {rate : Rate} {g : List CN} {st st' : St} {idx idx' : List Nat}
    {args args' : List ArgVal} (hi : Inv st)
    (h : buildIta cls rate g st idx args = .ok (st', idx', args')) :
    ∃ ps more, GroupStep g st st' idx idx' args args' ps more ∧
      (∀ u ∈ more, u.cls = cls ∧ u.rate = rate ∧ u.lags = []) ∧ (g ≠ [] → more ≠ []) := by
  unfold buildIta at h
  split at h
  · rename_i hg
    injection h with h; injection h with h1 h2; injection h2 with h2 h3
    subst hg h1 h2 h3
    exact ⟨[], [], ⟨hi, by simp [flatVals], by simp, rfl, by simp [flatVals], fun t ht => by simp at ht,
      fun t ht => by simp at ht, by simp [assign]⟩, by simp, by simp⟩
  · dsimp only at h
    split at h
    · cases h
    · injection h with h; injection h with h1 h2; injection h2 with h2 h3
      subst h1
      refine ⟨proxiesOf st.units.length (flatVals g).length,
        [{ cls := cls, rate := rate, special := st.controls.length, values := flatVals g, lags := [] }],
        ⟨inv_addUnit hi _ _ _ _, by simp [St.addUnit],
        by simp only [St.addUnit], by simp [St.addUnit], proxiesOf_length _ _, aligned_addUnit _ _ _ _,
        fun t ht => by simp [proxiesOf], ?_⟩, ?_, ?_⟩
      · rw [← h2, ← h3]
      · intro u hu; simp at hu; subst hu; exact ⟨rfl, rfl, rfl⟩
      · intro _; simp

/-! ## LagControl clumps -/

theorem clump16_flatten (l : List Val) : (clump16 l).flatten = l := by
  unfold clump16
  split
  · rename_i h; simp [h]
  · -- generic: chunks of 16 concatenate to the list
    have gen : ∀ (n : Nat) (l : List Val), l.length ≤ 16 * n →
        ((List.range n).map fun i => (l.drop (16 * i)).take 16).flatten = l := by
      intro n
      induction n with
      | zero => intro l hl; simp at hl; simp [hl]
      | succ n ih =>
        intro l hl
        rw [List.range_succ_eq_map, List.map_cons, List.map_map, List.flatten_cons]
        have : ((List.range n).map ((fun i => (l.drop (16 * i)).take 16) ∘ Nat.succ)) =
            (List.range n).map fun i => ((l.drop 16).drop (16 * i)).take 16 := by
          apply List.map_congr_left
          intro i _
          simp only [Function.comp, List.drop_drop]
          congr 2; omega
        rw [this, ih (l.drop 16) (by simp; omega)]
        simp
    exact gen _ l (by omega)

theorem clump16_length_le (l : List Val) : ∀ c ∈ clump16 l, c.length ≤ 16 := by
  intro c hc
  unfold clump16 at hc
  split at hc
  · cases hc
  · obtain ⟨i, _, rfl⟩ := List.mem_map.mp hc
    simp [List.length_take]; omega

theorem clump16_length_eq {a b : List Val} (h : a.length = b.length) :
    (clump16 a).length = (clump16 b).length ∧
      ∀ i (h1 : i < (clump16 a).length) (h2 : i < (clump16 b).length),
        (clump16 a)[i].length = (clump16 b)[i].length := by
  unfold clump16
  by_cases ha : a = []
  · have hb : b = [] := by subst ha; exact List.length_eq_zero_iff.mp h.symm
    subst ha hb; simp
  · have hb : b ≠ [] := by
      intro hb; subst hb; exact ha (List.length_eq_zero_iff.mp h)
    simp only [ha, hb, if_false, List.length_map, List.length_range, h, true_and]
    intro i h1 h2
    simp [List.length_take, List.length_drop, h]

/-- the units `addLagUnits` creates for matching clump lists -/
theorem addLagUnits_spec (vs ls : List (List Val)) (st : St) (hi : Inv st)
    (hlen : vs.length = ls.length) :
    let r := addLagUnits st vs ls
    ∃ more, Inv r.1 ∧ r.1.controls = st.controls ++ vs.flatten ∧ r.1.units = st.units ++ more ∧
      r.1.names = st.names ∧ r.2.length = vs.flatten.length ∧ Aligned r.1.units r.2 st.controls.length ∧
      (∀ t (h : t < r.2.length), st.units.length ≤ r.2[t].1) ∧
      more.map (·.values) = vs ∧ more.map (·.lags) = ls ∧
      (∀ u ∈ more, u.cls = .lagControl ∧ u.rate = .kr) := by
  induction vs generalizing ls st with
  | nil =>
    cases ls with
    | nil => exact ⟨[], hi, by simp [addLagUnits], by simp [addLagUnits], rfl, rfl,
        fun t ht => by simp [addLagUnits] at ht, fun t ht => by simp [addLagUnits] at ht, rfl, rfl, by simp⟩
    | cons l ls => simp at hlen
  | cons v vs ih =>
    cases ls with
    | nil => simp at hlen
    | cons l ls =>
      simp only [addLagUnits]
      have hi' := inv_addUnit hi .lagControl .kr v l
      obtain ⟨more, h1, h2, h3, h4, h5, h6, hfr, h7, h8, h9⟩ :=
        ih ls (st.addUnit .lagControl .kr v l) hi' (by simpa using hlen)
      refine ⟨{ cls := .lagControl, rate := .kr, special := st.controls.length, values := v, lags := l } :: more,
        h1, ?_, ?_, ?_, ?_, ?_, ?_, ?_, ?_, ?_⟩
      · rw [h2]; simp [St.addUnit]
      · rw [h3]; simp [St.addUnit]
      · rw [h4]; simp [St.addUnit]
      · simp [h5, proxiesOf_length]
      · apply aligned_append
        · have := aligned_addUnit (st := st) .lagControl .kr v l
          rw [h3]; exact aligned_mono this
        · rw [proxiesOf_length]
          have e : (st.addUnit .lagControl .kr v l).controls.length = st.controls.length + v.length := by
            simp [St.addUnit]
          rw [← e]; exact h6
      · intro t ht
        by_cases hlt : t < (proxiesOf st.units.length v.length).length
        · rw [List.getElem_append_left hlt]; simp [proxiesOf]
        · have hge := Nat.le_of_not_lt hlt
          rw [List.getElem_append_right hge]
          have := hfr (t - (proxiesOf st.units.length v.length).length) (by simp at ht ⊢; omega)
          have hul : (st.addUnit .lagControl .kr v l).units.length = st.units.length + 1 := by
            simp [St.addUnit]
          rw [hul] at this
          omega
      · simp [h7]
      · simp [h8]
      · intro u hu
        rcases List.mem_cons.mp hu with rfl | hu'
        · exact ⟨rfl, rfl⟩
        · exact h9 u hu'

end Sc3Verif.C04
